//! Projections of the master trace of one run onto the vocabulary of each trace specification.
use serde_json::{json, Value};

fn st_name(v: &Value) -> &'static str {
    match v.as_u64().unwrap_or(9) {
        0 => "hs",
        1 => "est",
        2 => "closed",
        3 => "draining",
        4 => "drained",
        _ => "gone",
    }
}

fn max_pto3(p: &Value) -> i64 {
    p["pto"]
        .as_array()
        .map(|a| a.iter().filter_map(|x| x.as_i64()).max().unwrap_or(0))
        .unwrap_or(0)
        * 3
}

fn pkts_of(tx: &Value) -> Vec<&Value> {
    let mut out = Vec::new();
    if let Some(dgs) = tx["dgs"].as_array() {
        for d in dgs {
            if let Some(p) = d["pkts"].as_array() {
                out.extend(p.iter());
            }
        }
    }
    out
}

fn frames_of(p: &Value) -> Vec<&Value> {
    p["fr"].as_array().map(|a| a.iter().collect()).unwrap_or_default()
}

fn conns_of(trace: &[Value]) -> Vec<(i64, i64)> {
    let mut out = Vec::new();
    for e in trace {
        let ev = e["ev"].as_str().unwrap_or("");
        if (ev == "Connect" || ev == "Accept") && e["ok"] == true {
            out.push((e["n"].as_i64().unwrap(), e["c"].as_i64().unwrap()));
        }
    }
    out
}

fn is_conn(e: &Value, n: i64, c: i64) -> bool {
    e["n"].as_i64() == Some(n) && e["c"].as_i64() == Some(c)
}

/// C08
pub fn lifecycle(trace: &[Value]) -> Vec<Value> {
    let mut out = Vec::new();
    let run = trace[0]["run"].clone();
    let late = trace[0]["cfgx"]["late_us"].as_i64().unwrap_or(0);
    let hostile = trace.iter().any(|e| {
        let ev = e["ev"].as_str().unwrap_or("");
        (ev == "Rx"
            && matches!(
                e["cls"].as_str().unwrap_or(""),
                "inject" | "corrupt" | "raw" | "forged" | "spoof"
            ))
            || ev == "Migrate"
    }) || trace[0]["tag"]["hostile"] == true;
    // a handle may be reused by a later connection on the same endpoint: split histories
    let mut segments: Vec<(i64, i64, usize, usize)> = Vec::new();
    for (i, e) in trace.iter().enumerate() {
        let ev = e["ev"].as_str().unwrap_or("");
        if (ev == "Connect" || ev == "Accept") && e["ok"] == true {
            let n = e["n"].as_i64().unwrap();
            let c = e["c"].as_i64().unwrap();
            for s in segments.iter_mut() {
                if s.0 == n && s.1 == c && s.3 == usize::MAX {
                    s.3 = i;
                }
            }
            segments.push((n, c, i, usize::MAX));
        }
    }
    for (n, c, from, to) in segments {
        let to = to.min(trace.len());
        let mut have_reset = false;
        let mut last_post: Option<&Value> = None;
        for e in &trace[from..to] {
            let ev = e["ev"].as_str().unwrap_or("");
            if ev == "End" {
                if have_reset {
                    let st = last_post.map_or("hs", |p| st_name(&p["st"]));
                    out.push(json!({"ev":"End","t":e["t"],"st":st}));
                }
                continue;
            }
            if !is_conn(e, n, c) {
                continue;
            }
            match ev {
                "Connect" | "Accept" => {
                    // first probe of the connection
                    let (idle, pto3) = match e.get("post") {
                        Some(p) => (p["idle"].as_i64().unwrap_or(-1), max_pto3(p)),
                        None => (-1, 0),
                    };
                    out.push(json!({"ev":"Reset","run":run,"n":n,"c":c,"t":e["t"],"st":"hs",
                        "idle":idle,"pto3":pto3,"hostile":hostile,"late":late}));
                    have_reset = true;
                    if ev == "Accept" {
                        // `accept` processes the connection-creating datagram (and any buffered
                        // ones): present that as the first receive step
                        let p = &e["post"];
                        let mut closes = Vec::new();
                        for prev in trace[..from].iter().rev() {
                            if prev["ev"] == "Rx" && prev["kind"] == "new" && prev["n"].as_i64() == Some(n) {
                                if let Some(pk) = prev["pk"].as_array() {
                                    for q in pk {
                                        for f in frames_of(q) {
                                            if f["f"] == "CONNECTION_CLOSE" {
                                                closes.push(json!({"app":f["app"],"code":f["code"],"reason":f["reason"]}));
                                            }
                                        }
                                    }
                                }
                                break;
                            }
                        }
                        let kind = if closes.is_empty() { "other" } else { "peerclose" };
                        out.push(json!({"ev":"Rx","t":e["t"],"st":st_name(&p["st"]),"close":p["close"],
                            "ctm":p["tm"][2],"itm":p["tm"][1],"pto3":max_pto3(p),
                            "kind":kind,"closes":closes,"authed":p["authed"],"idle":p["idle"],"pidle":p["idle"],
                            "id":-1}));
                    }
                    if let Some(p) = e.get("post") {
                        last_post = Some(p);
                    }
                }
                "Call" if e["op"] == "close" => {
                    let p = &e["post"];
                    let pre = &e["pre"];
                    let ampb = pre["path"]["val"] == false
                        && pre["path"]["recvd"].as_i64().unwrap_or(0) * 3
                            < pre["path"]["sent"].as_i64().unwrap_or(0) + 1;
                    out.push(json!({"ev":"Close","t":e["t"],"st":st_name(&p["st"]),"close":p["close"],
                        "ctm":p["tm"][2],"itm":p["tm"][1],"pto3":max_pto3(p).max(max_pto3(pre)),
                        "ampb":ampb}));
                    last_post = Some(p);
                }
                "Rx" if e["kind"] == "conn" => {
                    let p = &e["post"];
                    let pre = &e["pre"];
                    let mut closes = Vec::new();
                    let genuine = matches!(
                        e["cls"].as_str().unwrap_or(""),
                        "gen" | "dup" | "spoof" | "inject"
                    );
                    if let Some(pk) = e["pk"].as_array() {
                        for p in pk {
                            for f in frames_of(p) {
                                if f["f"] == "CONNECTION_CLOSE" && genuine {
                                    closes.push(json!({"app":f["app"],"code":f["code"],"reason":f["reason"]}));
                                }
                            }
                        }
                    }
                    let kind = if e["rtok"] == "exact" {
                        "reset"
                    } else if e["rtok"] == "maybe" {
                        "reset?"
                    } else if !closes.is_empty() {
                        "peerclose"
                    } else {
                        "other"
                    };
                    let authed = p["authed"].as_i64().unwrap_or(0) - pre["authed"].as_i64().unwrap_or(0);
                    out.push(json!({"ev":"Rx","t":e["t"],"st":st_name(&p["st"]),"close":p["close"],
                        "ctm":p["tm"][2],"itm":p["tm"][1],"pto3":max_pto3(p).max(max_pto3(pre)),
                        "kind":kind,"closes":closes,"authed":authed,"idle":p["idle"],"pidle":pre["idle"],
                        "onpath":e["src"] == pre["path"]["rem"],
                        // the first copy of an intact datagram of 1-RTT packets, readable with the keys held
                        "gen1":e["cls"] == "gen" && e["damaged"] != true && pre["sp"][2]["keys"] == true
                            && e["pk"].as_array().is_some_and(|a| !a.is_empty() && a.iter().all(|p| p["ty"] == "S")),
                        "id":e["id"]}));
                    last_post = Some(p);
                }
                "Timeout" => {
                    let p = &e["post"];
                    out.push(json!({"ev":"Timeout","t":e["t"],"st":st_name(&p["st"]),
                        "ctm":p["tm"][2],"itm":p["tm"][1],"pto3":max_pto3(p).max(max_pto3(&e["pre"]))}));
                    last_post = Some(p);
                }
                "AppEvent" => {
                    if e["e"]["k"] == "ConnectionLost" {
                        let r = &e["e"]["reason"];
                        out.push(json!({"ev":"Lost","t":e["t"],"k":r["k"],"code":r["code"],
                            "reason":r.get("reason").cloned().unwrap_or(json!(""))}));
                    } else {
                        out.push(json!({"ev":"AppEvent","t":e["t"],"k":e["e"]["k"]}));
                    }
                }
                "EpEvent" if e["drained"] == true => {
                    // with its last connection gone an endpoint has nothing left on file: no connection
                    // IDs, initial IDs, reset tokens, remotes
                    let ep = &e["ep_post"];
                    let left = if ep["conns"] == 0 {
                        ["cids", "icids", "rtok", "inrem", "outrem"].iter().map(|k| ep[*k].as_i64().unwrap_or(0)).sum::<i64>()
                    } else {
                        0
                    };
                    out.push(json!({"ev":"Drained","t":e["t"],"dup":e["dup"],"left":left,
                        "epc_pre":e["ep_pre"]["conns"],"epc_post":e["ep_post"]["conns"]}));
                }
                "Tx" => {
                    let p = &e["post"];
                    let pre = &e["pre"];
                    let pk = pkts_of(e);
                    let mut all_close = !pk.is_empty();
                    let mut all_pathchal = !pk.is_empty();
                    let mut ae = false;
                    // an application's close code or reason in a packet below 1-RTT protection
                    let mut appearly = false;
                    for q in &pk {
                        let fr = frames_of(q);
                        if q["ty"] != "S" && fr.iter().any(|f| f["f"] == "CONNECTION_CLOSE" && f["app"] == true) {
                            appearly = true;
                        }
                        if !fr.iter().any(|f| f["f"] == "CONNECTION_CLOSE") {
                            all_close = false;
                        }
                        if !fr
                            .iter()
                            .all(|f| f["f"] == "PATH_CHALLENGE" || f["f"] == "PADDING")
                        {
                            all_pathchal = false;
                        }
                        if q["ae"] == true {
                            ae = true;
                        }
                    }
                    let kind = if all_close {
                        "close"
                    } else if all_pathchal {
                        "pathchal"
                    } else {
                        "data"
                    };
                    out.push(json!({"ev":"Tx","t":e["t"],"st":st_name(&p["st"]),"kind":kind,
                        "close":p["close"],"ctm":p["tm"][2],"itm":p["tm"][1],
                        "pto3":max_pto3(p).max(max_pto3(pre)),"ae":ae,"idle":p["idle"],"pidle":pre["idle"],
                        "appearly":appearly}));
                    last_post = Some(p);
                }
                _ => {}
            }
        }
    }
    out
}

/// stream key: "<client node>:<stream id>:<writer side>"
fn sk(e: &Value, writer_is_local: bool) -> String {
    let n = e["n"].as_i64().unwrap_or(0);
    let client = if n >= 1 { n } else { e["peer"].as_i64().unwrap_or(1) };
    let local_side = if n == 0 { "s" } else { "c" };
    let other = if n == 0 { "c" } else { "s" };
    format!("{}:{}:{}", client, e["id"], if writer_is_local { local_side } else { other })
}

/// C01
pub fn streamdata(trace: &[Value]) -> Vec<Value> {
    let mut out = vec![json!({"ev":"Reset","run":trace[0]["run"]})];
    for e in trace {
        if e["ev"] == "End" {
            // a sender that has gone completely quiet on a validated path (nothing in flight, no
            // loss or pacing timer) while stream bytes are still unacknowledged has lost them
            let mut abandoned: Vec<Value> = Vec::new();
            for c in e["conns"].as_array().cloned().unwrap_or_default() {
                if c["st"] == 1 && c["drained"] != true && c["lost"].as_i64().unwrap_or(0) == 0
                    && c["ifb"].as_i64().unwrap_or(1) == 0 && c["tm0"] == -1 && c["tm6"] == -1 && c["val"] == true
                {
                    for s in c["sstreams"].as_array().cloned().unwrap_or_default() {
                        abandoned.push(json!([c["n"], c["c"], s[0], s[1]]));
                    }
                }
            }
            out.push(json!({"ev":"End","abandoned":abandoned}));
            continue;
        }
        if e["ev"] != "Call" {
            continue;
        }
        let k = e["res"]["k"].as_str().unwrap_or("");
        match e["op"].as_str().unwrap_or("") {
            "write" if k == "Ok" => {
                out.push(json!({"ev":"Write","sk":sk(e, true),"off":e["off"],"n":e["res"]["n"],"key":e["key"]}));
            }
            "finish" if k == "Ok" => out.push(json!({"ev":"Finish","sk":sk(e, true)})),
            "reset" if k == "Ok" => {
                out.push(json!({"ev":"ResetCall","sk":sk(e, true),"code":e["code"]}));
            }
            "read" => {
                let key = sk(e, false);
                if let Some(chunks) = e["res"]["chunks"].as_array() {
                    for ch in chunks {
                        let runs = ch["runs"].as_array().map(|r| r.len()).unwrap_or(0);
                        let first = ch["runs"][0][0].as_i64().unwrap_or(-1);
                        out.push(json!({"ev":"Chunk","sk":key,"ord":e["ordered"],"off":ch["off"],
                            "len":ch["len"],"first":first,"nruns":runs}));
                    }
                }
                if k == "Finished" || k == "Reset" {
                    out.push(json!({"ev":"ReadEnd","sk":key,"k":k,
                        "code":e["res"].get("code").cloned().unwrap_or(json!(-1))}));
                }
            }
            _ => {}
        }
    }
    out
}

fn has_pkt(e: &Value, ty: &str) -> bool {
    e["pk"].as_array().is_some_and(|a| a.iter().any(|p| p["ty"] == ty))
}

fn has_frame(e: &Value, name: &str) -> bool {
    e["pk"].as_array().is_some_and(|a| {
        a.iter()
            .any(|p| frames_of(p).iter().any(|f| f["f"] == name))
    })
}

fn path_of(p: &Value) -> Value {
    json!({"rem":p["path"]["rem"],"val":p["path"]["val"],"gen":p["path"]["gen"],
        "prem":p["prev"]["rem"]})
}

/// C07: one history per server-side connection plus the endpoint-level responses
pub fn antiamp(trace: &[Value]) -> Vec<Value> {
    let run = trace[0]["run"].clone();
    let mut out = Vec::new();
    let reset_ms = trace[0]["cfgx"]["min_reset_interval_ms"].as_i64().unwrap_or(20);
    // endpoint level first (server node and client nodes alike)
    out.push(json!({"ev":"Reset","run":run,"kind":"endpoint","interval":reset_ms * 1000}));
    for e in trace {
        match e["ev"].as_str().unwrap_or("") {
            "Resp" => {
                let is_reset = e["why"] == "handle"
                    && e["pkts"].as_array().is_some_and(|a| a.iter().all(|p| p["ty"] == "S"));
                out.push(json!({"ev":"Resp","t":e["t"],"n":e["n"],"size":e["size"],"incite":e["incite"],
                    "why":e["why"],"reset":is_reset}));
            }
            "Rx" if e["kind"] != "conn" && e["kind"] != "noroute" && e["kind"] != "stale" => {
                // a datagram that was not routed to an existing connection
                // judged from the invariant header bytes alone: long header, type Initial, version 1
                // (an Initial of a version the endpoint does not speak is version negotiation's business)
                let ver = e["ver"].as_i64().unwrap_or(-1);
                let supported = ver == 1 || (0xff00_001d..=0xff00_0022).contains(&ver);
                let short_init = e["size"].as_i64().unwrap_or(0) < 1200
                    && supported
                    && (e["pk"][0]["ty"] == "I"
                        || (e["long"] == true && e["first"].as_i64().unwrap_or(0) & 0x30 == 0 && ver == 1))
                    && e["n"] == 0;
                let same = e["ep_pre"] == e["ep_post"];
                out.push(json!({"ev":"RxEp","t":e["t"],"n":e["n"],"size":e["size"],"kind":e["kind"],
                    "shortinit":short_init,"epsame":same,"id":e["id"]}));
            }
            _ => {}
        }
    }
    // per server connection
    let mut first_size: i64 = 0;
    let mut first_src: i64 = 0;
    let mut first_validated = false;
    let mut open: Vec<i64> = Vec::new();
    let mut lines: std::collections::BTreeMap<i64, Vec<Value>> = Default::default();
    // tokens the server put on the wire and where they went
    let mut retry_to: std::collections::HashMap<String, i64> = Default::default();
    let mut newtok_to: std::collections::HashMap<String, i64> = Default::default();
    for e in trace {
        let ev = e["ev"].as_str().unwrap_or("");
        if e["n"] != 0 {
            continue;
        }
        if ev == "Tx" || ev == "Resp" {
            let dst = e["dst"].as_i64().unwrap_or(0);
            let mut pkts: Vec<Value> = Vec::new();
            for d in e["dgs"].as_array().cloned().unwrap_or_default() {
                pkts.extend(d["pkts"].as_array().cloned().unwrap_or_default());
            }
            pkts.extend(e["pkts"].as_array().cloned().unwrap_or_default());
            for p in pkts {
                if p["ty"] == "R" {
                    retry_to.insert(p["tokh"].as_str().unwrap_or("").to_string(), dst);
                }
                for f in p["fr"].as_array().cloned().unwrap_or_default() {
                    if f["f"] == "NEW_TOKEN" {
                        newtok_to.insert(f["tok"].as_str().unwrap_or("").to_string(), dst);
                    }
                }
            }
        }
        match ev {
            "Rx" if e["kind"] == "new" => {
                first_size = e["size"].as_i64().unwrap_or(0);
                first_src = e["src"].as_i64().unwrap_or(0);
                // quinn's word that the token validates the address counts only if the harness saw
                // that very token go to that address (Retry: same address; NEW_TOKEN: same host)
                let tokh = e["pk"][0]["tokh"].as_str().unwrap_or("").to_string();
                let bound = match (retry_to.get(&tokh), newtok_to.get(&tokh)) {
                    (Some(a), _) => *a == first_src,
                    (None, Some(a)) => (*a >> 16) == (first_src >> 16),
                    _ => false,
                };
                first_validated = e["validated"] == true && bound;
            }
            "Accept" if e["ok"] == true => {
                let c = e["c"].as_i64().unwrap();
                open.push(c);
                let v = lines.entry(c).or_default();
                v.push(json!({"ev":"Reset","run":run,"kind":"conn","c":c}));
                v.push(json!({"ev":"RxC","t":e["t"],"src":first_src,"size":first_size,
                    "proves":first_validated,"path":path_of(&e["post"])}));
            }
            "Rx" if e["kind"] == "conn" => {
                let c = e["c"].as_i64().unwrap();
                let processed = e["dfr_sum"].as_i64().unwrap_or(0) > 0;
                let genuine = matches!(e["cls"].as_str().unwrap_or(""), "gen" | "dup" | "inject" | "shrunk");
                // a Handshake packet or a PATH_RESPONSE that was really processed, from that address
                let proves = processed && genuine && (has_pkt(e, "H") || has_frame(e, "PATH_RESPONSE"));
                if let Some(v) = lines.get_mut(&c) {
                    v.push(json!({"ev":"RxC","t":e["t"],"src":e["src"],"size":e["size"],
                        "proves":proves,"path":path_of(&e["post"])}));
                }
            }
            "Tx" => {
                let c = e["c"].as_i64().unwrap();
                let sizes: Vec<Value> = e["dgs"]
                    .as_array()
                    .map(|a| a.iter().map(|d| d["size"].clone()).collect())
                    .unwrap_or_default();
                if let Some(v) = lines.get_mut(&c) {
                    v.push(json!({"ev":"TxC","t":e["t"],"dst":e["dst"],"sizes":sizes,
                        "path":path_of(&e["post"]),"ppath":path_of(&e["pre"])}));
                }
            }
            "Timeout" => {
                // path validation failure may swap the path back
                let c = e["c"].as_i64().unwrap();
                if let Some(v) = lines.get_mut(&c) {
                    v.push(json!({"ev":"Tick","t":e["t"],"path":path_of(&e["post"])}));
                }
            }
            _ => {}
        }
    }
    for (_, v) in lines {
        out.extend(v);
    }
    out
}

/// The part of the connection state an unauthenticated or duplicate datagram must not change.
/// Excluded on purpose: byte/datagram counters, authentication failure counter, the path's
/// received-byte credit, LossDetection / Pacing / KeyDiscard / MaxAckDelay timers.
fn auth_digest(p: &Value) -> Value {
    let sp: Vec<Value> = p["sp"]
        .as_array()
        .map(|a| {
            a.iter()
                .map(|s| json!([s["keys"], s["next"], s["lack"], s["rx"], s["dd"], s["nsent"], s["coff"], s["cread"], s["pcrypto"], s["pretire"]]))
                .collect()
        })
        .unwrap_or_default();
    json!({"st":p["st"],"err":p["err"],"hs":p["hs"],"sp":sp,"kp":p["kp"],
        "prevk":p["prevk"],"zk":p["zk"],"streams":p["streams"],"dgi":p["dgi"],"dgo":p["dgo"],
        "rcid":p["rcid"],"lcids":p["lcids"],"rem":p["path"]["rem"],"val":p["path"]["val"],
        "gen":p["path"]["gen"],"idle_tm":p["tm"][1],"close_tm":p["tm"][2],"ka_tm":p["tm"][5],
        "nev":p["nev"]})
}

/// C04: one history per connection
/// Packet numbers are only unique per sending connection: several server connections may answer one
/// client (a retransmitted Initial after the first attempt was closed). The identity used by the
/// specification is made unique by scoping the number with the sender's connection id.
fn sender_scoped(e: &Value) -> Vec<Value> {
    let suid = e["suid"].as_i64().unwrap_or(-1) + 1;
    e["ipk"].as_array().cloned().unwrap_or_default().into_iter().map(|mut p| {
        let pn = p["pn"].as_i64().unwrap_or(0);
        p["pn"] = json!((pn % 1_000_000) + 1_000_000 * (suid % 2000));
        p
    }).collect()
}

pub fn auth(trace: &[Value]) -> Vec<Value> {
    let run = trace[0]["run"].clone();
    let mut out = Vec::new();
    let mut lines: std::collections::BTreeMap<(i64, i64), Vec<Value>> = Default::default();
    let mut first_ipk: Value = json!([]);
    let mut first_cls: Value = json!("gen");
    let mut retried: std::collections::BTreeMap<(i64, i64), bool> = Default::default();
    for e in trace {
        let ev = e["ev"].as_str().unwrap_or("");
        match ev {
            "Connect" | "Accept" if e["ok"] == true => {
                let n = e["n"].as_i64().unwrap();
                let c = e["c"].as_i64().unwrap();
                retried.remove(&(n, c));
                let v = lines.entry((n, c)).or_default();
                v.clear();
                v.push(json!({"ev":"Reset","run":run,"n":n,"c":c}));
                if ev == "Accept" {
                    // the connection-creating datagram is processed inside accept()
                    let dfr: Vec<Value> = e["dfr"]
                        .as_array()
                        .map(|a| a.iter().enumerate().filter(|(_, x)| x.as_i64().unwrap_or(0) > 0)
                            .map(|(i, x)| json!([i + 1, x])).collect())
                        .unwrap_or_default();
                    v.push(json!({"ev":"Rx","kind":"data","cls":first_cls,"ipk":first_ipk,"dfr":dfr,
                        "authed":e["post"]["authed"],"same":false,"stchange":false,"preauthed":0,"open":false,
                        "id":-1,"t":e["t"]}));
                }
            }
            "Rx" if e["kind"] == "new" => {
                first_ipk = json!(sender_scoped(e));
                first_cls = e["cls"].clone();
            }
            "Rx" if e["kind"] == "conn" => {
                let n = e["n"].as_i64().unwrap();
                let c = e["c"].as_i64().unwrap();
                let pre = &e["pre"];
                let post = &e["post"];
                let dfr: Vec<Value> = e["dfr"]
                    .as_array()
                    .map(|a| a.iter().enumerate().filter(|(_, x)| x.as_i64().unwrap_or(0) > 0)
                        .map(|(i, x)| json!([i + 1, x])).collect())
                    .unwrap_or_default();
                let ipk = sender_scoped(e);
                let kind = if e["rtok"] == "exact" || e["rtok"] == "maybe" {
                    "reset"
                } else if e["otypes"].as_str().unwrap_or("").contains('R') {
                    "retry"
                } else if e["otypes"].as_str().unwrap_or("").contains('V') || e["cls"].as_str().unwrap_or("").starts_with("vn") {
                    "vn"
                } else {
                    "data"
                };
                let same = auth_digest(pre) == auth_digest(post);
                // a Retry the client followed is a server packet it has accepted, although quinn does not
                // count it among the authenticated (numbered) packets: later Retry / Version Negotiation
                // packets must be ignored just as after any other accepted packet
                let followed = *retried.get(&(n, c)).unwrap_or(&false);
                if kind == "retry" && !same && e["cls"] == "gen" {
                    retried.insert((n, c), true);
                }
                if let Some(v) = lines.get_mut(&(n, c)) {
                    v.push(json!({"ev":"Rx","kind":kind,"cls":e["cls"],"ipk":ipk,"dfr":dfr,
                        "authed":post["authed"].as_i64().unwrap_or(0) - pre["authed"].as_i64().unwrap_or(0),
                        "same":same,"stchange":pre["st"] != post["st"],
                        "preauthed":pre["authed"].as_i64().unwrap_or(0) + if followed { 1 } else { 0 },
                        "open":pre["st"].as_i64().unwrap_or(9) <= 1 && post["st"].as_i64().unwrap_or(9) <= 1
                            && post["err"] != true && e["damaged"] != true,
                        "id":e["id"],"t":e["t"]}));
                }
            }
            _ => {}
        }
    }
    for (_, v) in lines {
        out.extend(v);
    }
    out
}

fn cap(v: &Value) -> i64 {
    v.as_i64().unwrap_or_else(|| if v.as_u64().is_some() { 1 << 30 } else { 0 }).min(1 << 30)
}

fn side_of(n: i64) -> &'static str {
    if n == 0 {
        "s"
    } else {
        "c"
    }
}

/// C05: sender-side flow control ledger for one client <-> server pair
pub fn flow(trace: &[Value]) -> Vec<Value> {
    let mut out = vec![json!({"ev":"Reset","run":trace[0]["run"]})];
    for e in trace {
        let n = e["n"].as_i64().unwrap_or(-1);
        if n > 1 {
            continue;
        }
        match e["ev"].as_str().unwrap_or("") {
            "TP" => out.push(json!({"ev":"TP","side":side_of(n),"md":cap(&e["md"]),"sdbl":cap(&e["sdbl"]),
                "sdbr":cap(&e["sdbr"]),"sduni":cap(&e["sduni"]),"msb":cap(&e["msb"]),"msu":cap(&e["msu"])})),
            "Tx" => {
                let mut fr = Vec::new();
                for p in pkts_of(e) {
                    // 0-RTT packets are sent under remembered parameters: not part of this ledger
                    if p["ty"] == "Z" {
                        continue;
                    }
                    for f in frames_of(p) {
                        if f["f"] == "STREAM" {
                            fr.push(json!({"k":"stream","id":f["id"],
                                "end":f["off"].as_i64().unwrap_or(0) + f["len"].as_i64().unwrap_or(0)}));
                        } else if f["f"] == "RESET_STREAM" {
                            fr.push(json!({"k":"reset","id":f["id"],"end":cap(&f["fin"])}));
                        }
                    }
                }
                if !fr.is_empty() {
                    out.push(json!({"ev":"Sent","side":side_of(n),"fr":fr}));
                }
            }
            "Rx" if e["kind"] == "conn" => {
                let dfr = &e["dfr"];
                let genuine = matches!(e["cls"].as_str().unwrap_or(""), "gen" | "dup" | "spoof" | "inject");
                if !genuine {
                    continue;
                }
                let mut fr = Vec::new();
                if let Some(pk) = e["pk"].as_array() {
                    for p in pk {
                        for f in frames_of(p) {
                            if f["f"] == "MAX_DATA" && dfr[8].as_i64().unwrap_or(0) > 0 {
                                fr.push(json!({"k":"md","id":0,"v":cap(&f["v"])}));
                            } else if f["f"] == "MAX_STREAM_DATA" && dfr[9].as_i64().unwrap_or(0) > 0 {
                                fr.push(json!({"k":"msd","id":f["id"],"v":cap(&f["v"])}));
                            } else if f["f"] == "MAX_STREAMS" {
                                let uni = f["uni"] == true;
                                if dfr[if uni { 11 } else { 10 }].as_i64().unwrap_or(0) > 0 {
                                    fr.push(json!({"k":if uni { "msu" } else { "msb" },"id":0,"v":cap(&f["v"])}));
                                }
                            }
                        }
                    }
                }
                if !fr.is_empty() {
                    out.push(json!({"ev":"MaxArr","side":side_of(n),"fr":fr}));
                }
            }
            "Call" if e["op"] == "write" => {
                let st = &e["pre"]["streams"];
                let id = e["id"].as_i64().unwrap_or(-1);
                let mut scredit: i64 = -1;
                if let Some(a) = st["send"].as_array() {
                    for s in a {
                        if s["id"].as_i64() == Some(id) {
                            scredit = cap(&s["md"]) - cap(&s["off"]);
                        }
                    }
                }
                let ccredit = (cap(&st["md"]) - cap(&st["ds"])).max(0);
                // bytes really awaiting acknowledgement: the send buffers of all streams that were not
                // reset (a reset releases its stream's share), independent of the connection's counter
                let uasum: i64 = st["send"].as_array().map_or(0, |a| {
                    a.iter().filter(|s| s["st"].as_i64().unwrap_or(0) < 3).map(|s| cap(&s["ua"])).sum()
                });
                let wcredit = (cap(&st["sw"]) - uasum).max(0);
                let closed = e["pre"]["st"].as_i64().unwrap_or(0) >= 2;
                out.push(json!({"ev":"Write","side":side_of(n),"id":id,"len":cap(&e["len"]),
                    "res":e["res"]["k"],"n":e["res"].get("n").map_or(0, cap),
                    "scredit":scredit,"ccredit":ccredit,"wcredit":wcredit,"closed":closed,
                    "ua":cap(&st["ua"]),"uasum":uasum.min(1 << 30)}));
            }
            "Call" if e["op"] == "open" => {
                let st = &e["pre"]["streams"];
                let d = e["dir"].as_u64().unwrap_or(0) as usize;
                let closed = e["pre"]["st"].as_i64().unwrap_or(0) >= 2;
                out.push(json!({"ev":"Open","side":side_of(n),"dir":d,"some":e["res"]["k"] == "Some",
                    "id":e["res"].get("id").map_or(-1, cap),
                    "next":cap(&st["next"][d]),"max":cap(&st["max"][d]),"closed":closed}));
            }
            _ => {}
        }
    }
    out
}

fn sent_list(p: &Value) -> Vec<(i64, i64, i64, bool, i64)> {
    // (space, pn, size, ack_eliciting, generation)
    let mut out = Vec::new();
    if let Some(sp) = p["sp"].as_array() {
        for (i, s) in sp.iter().enumerate() {
            if let Some(l) = s["sent"].as_array() {
                for x in l {
                    out.push((i as i64, x[0].as_i64().unwrap_or(0), x[1].as_i64().unwrap_or(0),
                        x[2] == true, x[3].as_i64().unwrap_or(0)));
                }
            }
        }
    }
    out
}

/// C12: one history per connection; needs probe level 2 (outstanding packet lists)
pub fn recovery(trace: &[Value]) -> Vec<Value> {
    let run = trace[0]["run"].clone();
    let c2s = trace[0]["cfgx"]["fates_c2s"].as_array().map_or(true, |a| a.iter().all(|x| x == "ok"));
    let s2c = trace[0]["cfgx"]["fates_s2c"].as_array().map_or(true, |a| a.iter().all(|x| x == "ok"));
    let cfgx = &trace[0]["cfgx"];
    let mut clean = c2s && s2c
        && cfgx["loss_pct"].as_i64().unwrap_or(0) == 0
        && cfgx["dup_pct"].as_i64().unwrap_or(0) == 0
        && cfgx["jitter_us"].as_i64().unwrap_or(0) == 0
        && cfgx["late_us"].as_i64().unwrap_or(0) == 0;
    for e in trace {
        let ev = e["ev"].as_str().unwrap_or("");
        if matches!(ev, "Replay" | "DropInflight" | "Blackhole" | "Migrate" | "Set" | "ResetLike" | "Splice" | "Vn")
            || (ev == "Rx" && !matches!(e["cls"].as_str().unwrap_or("gen"), "gen"))
            || (ev == "Tx" && e["dgs"].as_array().is_some_and(|a| a.iter().any(|d| d["fate"] != "ok")))
        {
            clean = false;
        }
    }
    let mut lines: std::collections::BTreeMap<(i64, i64), Vec<Value>> = Default::default();
    for e in trace {
        let ev = e["ev"].as_str().unwrap_or("");
        if !matches!(ev, "Tx" | "Rx" | "Timeout" | "Call") || e.get("pre").is_none() || e.get("post").is_none() {
            continue;
        }
        if ev == "Rx" && e["kind"] != "conn" {
            continue;
        }
        let n = e["n"].as_i64().unwrap();
        let c = e["c"].as_i64().unwrap();
        let pre = &e["pre"];
        let post = &e["post"];
        let v = lines.entry((n, c)).or_default();
        if v.is_empty() {
            // one of quinn's own congestion controllers (the default is Cubic), not a test controller of the harness
            let side = if n == 0 { "server" } else { "client" };
            let cc = cfgx[side]["cc"].as_str().unwrap_or("cubic");
            let builtin = matches!(cc, "cubic" | "newreno" | "bbr");
            v.push(json!({"ev":"Reset","run":run,"n":n,"c":c,"clean":clean,"builtin":builtin}));
        }
        let a = sent_list(pre);
        let b = sent_list(post);
        let gen = post["path"]["gen"].as_i64().unwrap_or(0);
        let pgen = post["prev"]["gen"].as_i64().unwrap_or(-1);
        let has_prev = post["prev"]["rem"].as_i64().unwrap_or(0) != 0;
        let (mut sum_cur, mut cnt_cur, mut sum_prev, mut cnt_prev) = (0i64, 0i64, 0i64, 0i64);
        for x in &b {
            if x.4 == gen {
                sum_cur += x.2;
                cnt_cur += x.3 as i64;
            } else if has_prev && x.4 == pgen {
                sum_prev += x.2;
                cnt_prev += x.3 as i64;
            }
        }
        let in_a: std::collections::HashSet<(i64, i64)> = a.iter().map(|x| (x.0, x.1)).collect();
        let in_b: std::collections::HashSet<(i64, i64)> = b.iter().map(|x| (x.0, x.1)).collect();
        // packets that became outstanding during this step
        let mut newp: Vec<Value> = b
            .iter()
            .filter(|x| !in_a.contains(&(x.0, x.1)))
            .map(|x| json!({"sp":x.0,"pn":x.1,"size":x.2,"ae":x.3,"gen":x.4}))
            .collect();
        newp.sort_by_key(|x| (x["sp"].as_i64().unwrap_or(0), x["pn"].as_i64().unwrap_or(0)));
        // the datagrams of this transmit, in order, with the in-flight bytes they added
        let mut dgl: Vec<Value> = Vec::new();
        // packets the wire decoder finds ack-eliciting that the connection does not hold as such
        let mut untracked: Vec<i64> = Vec::new();
        if ev == "Tx" {
            let size_of: std::collections::HashMap<(i64, i64), (i64, bool)> =
                b.iter().map(|x| ((x.0, x.1), (x.2, x.3))).collect();
            for d in e["dgs"].as_array().cloned().unwrap_or_default() {
                let dsize = d["size"].as_i64().unwrap_or(0);
                let mut exempt = false;
                let mut infl = 0i64;
                let mut ae = false;
                let mut first_sp = -1i64;
                let mut first_ae = true;
                let mut npk = 0;
                for p in d["pkts"].as_array().cloned().unwrap_or_default() {
                    if npk == 0 {
                        first_ae = p["ae"] == true;
                    }
                    npk += 1;
                    let fr = frames_of(&p);
                    let names: Vec<&str> = fr.iter().map(|f| f["f"].as_str().unwrap_or("")).collect();
                    let only = |set: &[&str]| names.iter().all(|n| set.contains(n));
                    exempt |= names.contains(&"CONNECTION_CLOSE")
                        || names.contains(&"PATH_CHALLENGE")
                        || names.contains(&"PATH_RESPONSE")
                        || (only(&["PING", "PADDING", "IMMEDIATE_ACK"]) && names.contains(&"PING")
                            && dsize > pre["path"]["mtu"].as_i64().unwrap_or(0));
                    let key = (p["sp"].as_i64().unwrap_or(-1), p["pn"].as_i64().unwrap_or(-1));
                    if first_sp < 0 {
                        first_sp = key.0;
                    }
                    if let Some((sz, a)) = size_of.get(&key) {
                        if !in_a.contains(&key) {
                            infl += sz;
                            ae |= *a && *sz > 0;
                        }
                    }
                    let pathish = names.contains(&"PATH_CHALLENGE") || names.contains(&"PATH_RESPONSE") || names.contains(&"CONNECTION_CLOSE");
                    if p["ae"] == true && !pathish && key.0 >= 0 && !in_a.contains(&key) {
                        match size_of.get(&key) {
                            Some((sz, a)) if *a && *sz > 0 => {}
                            _ => untracked.push(key.0),
                        }
                    }
                }
                // the first packet of the datagram carries nothing ack-eliciting (e.g. an ACK-only
                // Initial) and further packets were coalesced behind it
                let behind_ack_only = !first_ae && npk > 1;
                dgl.push(json!({"sp":first_sp,"infl":infl,"ae":ae,"exempt":exempt,"size":dsize,
                    "behind":behind_ack_only}));
            }
        }
        let left: Vec<Value> = a
            .iter()
            .filter(|x| !in_b.contains(&(x.0, x.1)))
            .map(|x| json!({"sp":x.0,"pn":x.1,"size":x.2}))
            .collect();
        // acknowledged ranges carried by the delivered datagram
        let mut acked: Vec<Value> = Vec::new();
        if ev == "Rx" {
            for p in e["pk"].as_array().cloned().unwrap_or_default() {
                for f in frames_of(&p) {
                    if f["f"] == "ACK" {
                        for r in f["ranges"].as_array().cloned().unwrap_or_default() {
                            acked.push(json!({"sp":p["sp"],"lo":r[0],"hi":r[1]}));
                        }
                    }
                }
            }
        }
        let keys = |p: &Value| -> Vec<bool> {
            p["sp"].as_array().map(|a| a.iter().map(|s| s["keys"] == true).collect()).unwrap_or_default()
        };
        let (kpre, kpost) = (keys(pre), keys(post));
        let disc: Vec<i64> = (0..3).filter(|&i| kpre.get(i) == Some(&true) && kpost.get(i) == Some(&false)).map(|i| i as i64).collect();
        let lp: Vec<Value> = pre["sp"].as_array().map(|a| a.iter().map(|s| s["lp"].clone()).collect()).unwrap_or_default();
        let nextpn: Vec<Value> = pre["sp"].as_array().map(|a| a.iter().map(|s| s["next"].clone()).collect()).unwrap_or_default();
        let d = |k: &str| post["stats"][k].as_i64().unwrap_or(0) - pre["stats"][k].as_i64().unwrap_or(0);
        let zacc_change = pre["zk"] != post["zk"] || pre["zacc"] != post["zacc"];
        let retry = ev == "Rx" && e["otypes"].as_str().unwrap_or("").contains('R');
        // the sending rate the application has limited this side to (bytes per second; -1: none)
        let rate = cfgx[if n == 0 { "server" } else { "client" }]["max_bytes_per_sec"].as_i64().unwrap_or(-1).min(1 << 30);
        v.push(json!({"ev":"Step","kind":ev,"t":e["t"],"new":newp,"dgl":dgl,"untracked":untracked,"left":left,"acked":acked,"disc":disc,
            "rate":rate,"mtu":post["path"]["mtu"],
            "dlost":d("lost") + d("lprobe"),"lost":post["stats"]["lost"],"cev":post["stats"]["cev"],
            "ifb":post["path"]["ifb"],"ifae":post["path"]["ifae"],
            "pifb":if has_prev { post["prev"]["ifb"].clone() } else { json!(-1) },
            "pifae":if has_prev { post["prev"]["ifae"].clone() } else { json!(-1) },
            "sum":sum_cur,"cnt":cnt_cur,"psum":sum_prev,"pcnt":cnt_prev,
            "pre_ifb":pre["path"]["ifb"],"cwnd":cap(&pre["path"]["cwnd"]),"lp":lp,"next":nextpn,
            "cwnd1":cap(&post["path"]["cwnd"]),"mtu1":cap(&post["path"]["mtu"]),
            "pathchg":pre["path"]["gen"] != post["path"]["gen"],
            "zchg":zacc_change,"retry":retry,"st":post["st"]}));
    }
    let mut out = Vec::new();
    for (_, v) in lines {
        out.extend(v);
    }
    out
}

/// C11: operations, arrivals of control signals, application events, MAX_STREAMS advertisements
pub fn streamsm(trace: &[Value]) -> Vec<Value> {
    let mut out = vec![json!({"ev":"Reset","run":trace[0]["run"]})];
    for e in trace {
        let n = e["n"].as_i64().unwrap_or(-1);
        if n > 1 || n < 0 {
            continue;
        }
        let side = side_of(n);
        match e["ev"].as_str().unwrap_or("") {
            "TP" => out.push(json!({"ev":"Init","side":side,"msb":cap(&e["msb"]),"msu":cap(&e["msu"])})),
            "Call" => {
                let op = e["op"].as_str().unwrap_or("");
                let k = e["res"]["k"].as_str().unwrap_or("");
                let closed = e["pre"]["st"].as_i64().unwrap_or(0) >= 2;
                match op {
                    "write" | "finish" | "reset" | "stopped" | "stop" | "received_reset" => {
                        out.push(json!({"ev":"Op","side":side,"op":op,"id":e["id"],"res":k,
                            "code":e["res"].get("code").map_or(-1, cap),"arg":e.get("code").map_or(-1, cap),
                            "closed":closed}));
                    }
                    "read" => {
                        let nch = e["res"]["chunks"].as_array().map_or(0, |a| a.len());
                        let res = match k {
                            "More" | "Blocked" if nch > 0 => "Data",
                            "More" => "Blocked",
                            o => o,
                        };
                        // the half as it was before the call: bytes read so far and the final size, if known
                        let (mut br0, mut fs0) = (-1i64, -1i64);
                        for r in e["pre"]["streams"]["recv"].as_array().cloned().unwrap_or_default() {
                            if r["id"] == e["id"] {
                                br0 = cap(&r["br"]);
                                fs0 = cap(&r["fs"]);
                            }
                        }
                        out.push(json!({"ev":"Op","side":side,"op":"read","id":e["id"],"res":res,
                            "code":e["res"].get("code").map_or(-1, cap),"arg":if e["ordered"] == false { 0 } else { 1 },"closed":closed,
                            "br0":br0,"fs0":fs0,"tot":cap(&e["res"]["total"])}));
                    }
                    "open" | "accept" => {
                        out.push(json!({"ev":"Op","side":side,"op":op,"id":e["res"].get("id").map_or(-1, cap),
                            "res":k,"code":-1,"arg":e["dir"],"closed":closed}));
                    }
                    _ => {}
                }
            }
            "Rx" if e["kind"] == "conn" => {
                let genuine = matches!(e["cls"].as_str().unwrap_or(""), "gen" | "dup" | "spoof" | "inject");
                // a closed connection still counts the frames of what it receives, but acts on none
                if !genuine || e["pre"]["st"].as_i64().unwrap_or(0) >= 2 {
                    continue;
                }
                let dfr = &e["dfr"];
                let mut fr = Vec::new();
                for p in e["pk"].as_array().cloned().unwrap_or_default() {
                    for f in frames_of(&p) {
                        match f["f"].as_str().unwrap_or("") {
                            "STOP_SENDING" if dfr[22].as_i64().unwrap_or(0) > 0 => {
                                fr.push(json!({"k":"stop","id":f["id"],"code":cap(&f["code"])}));
                            }
                            "STREAM" if dfr[23].as_i64().unwrap_or(0) > 0 => {
                                fr.push(json!({"k":if f["fin"] == true { "fin" } else { "data" },"id":f["id"],"code":-1}));
                            }
                            "RESET_STREAM" if dfr[17].as_i64().unwrap_or(0) > 0 => {
                                fr.push(json!({"k":"rst","id":f["id"],"code":cap(&f["code"])}));
                            }
                            "MAX_STREAM_DATA" if dfr[9].as_i64().unwrap_or(0) > 0 => {
                                fr.push(json!({"k":"used","id":f["id"],"code":-1}));
                            }
                            _ => {}
                        }
                    }
                }
                if !fr.is_empty() {
                    out.push(json!({"ev":"Arr","side":side,"fr":fr}));
                }
            }
            "AppEvent" => {
                let k = e["e"]["k"].as_str().unwrap_or("");
                if matches!(k, "Finished" | "Stopped" | "Readable" | "Writable" | "Opened" | "Available") {
                    out.push(json!({"ev":"AppEv","side":side,"k":k,"id":e["e"].get("id").map_or(-1, cap),
                        "code":e["e"].get("code").map_or(-1, cap),"dir":e["e"].get("dir").map_or(-1, cap)}));
                }
            }
            "Tx" => {
                for p in pkts_of(e) {
                    for f in frames_of(p) {
                        if f["f"] == "MAX_STREAMS" {
                            out.push(json!({"ev":"MaxStreams","side":side,"uni":f["uni"],"v":cap(&f["v"])}));
                        }
                    }
                }
            }
            _ => {}
        }
    }
    out
}

/// C02: completion of event-driven workloads and the timer obligations at every step
pub fn progress(trace: &[Value]) -> Vec<Value> {
    let cfgx = &trace[0]["cfgx"];
    let count_faults = |k: &str| cfgx[k].as_array().map_or(0, |a| a.iter().filter(|x| *x != "ok").count()) as i64;
    let k = count_faults("fates_c2s") + count_faults("fates_s2c");
    let mut out = vec![json!({"ev":"Reset","run":trace[0]["run"],"k":k,"late":cfgx["late_us"].as_i64().unwrap_or(0),
        "lat":cfgx["latency_us"].as_i64().unwrap_or(10000),"budget_s":trace[0]["tag"]["budget_s"].as_i64().unwrap_or(300)})];
    for e in trace {
        let ev = e["ev"].as_str().unwrap_or("");
        match ev {
            "Tx" | "TxNone" | "Timeout" | "Rx" | "Call" => {
                let Some(p) = e.get("post") else { continue };
                if ev == "Rx" && e["kind"] != "conn" {
                    continue;
                }
                if p.get("gone").is_some() {
                    continue;
                }
                let n = e["n"].as_i64().unwrap_or(0);
                let path = &p["path"];
                let ampb = path["val"] == false
                    && path["recvd"].as_i64().unwrap_or(0) * 3 < path["sent"].as_i64().unwrap_or(0) + 1;
                let sp = &p["sp"];
                // the client knows the server validated its address once a Handshake/1-RTT packet was
                // acknowledged or the Handshake keys are gone
                let pcav = n == 0
                    || sp[1]["lack"].as_i64().unwrap_or(-1) >= 0
                    || sp[2]["lack"].as_i64().unwrap_or(-1) >= 0
                    || (sp[2]["keys"] == true && sp[1]["keys"] == false);
                // one of quinn's own controllers reporting less than two datagrams of window
                let cc = cfgx[if n == 0 { "server" } else { "client" }]["cc"].as_str().unwrap_or("cubic");
                let wlow = matches!(cc, "cubic" | "newreno" | "bbr") && p["st"].as_i64().unwrap_or(9) <= 1
                    && path["cwnd"].as_i64().unwrap_or(1 << 40) < 2 * path["mtu"].as_i64().unwrap_or(0);
                out.push(json!({"ev":"Step","kind":ev,"t":e["t"],"side":side_of(n),"st":st_name(&p["st"]),"wlow":wlow,
                    "ifae":path["ifae"],"ampb":ampb,"tm0":p["tm"][0],"tm6":p["tm"][6],"pcav":pcav,
                    "hsfl": sp[0]["nsent"].as_i64().unwrap_or(0) + sp[1]["nsent"].as_i64().unwrap_or(0)}));
            }
            "Panic" | "StepBound" => out.push(json!({"ev":ev,"t":e["t"],"what":e["what"]})),
            "End" => {
                // a step is quiescent when the same connection does nothing more at that instant
                let mut last_of: std::collections::HashMap<String, usize> = Default::default();
                for i in 0..out.len() {
                    if out[i]["ev"] == "Step" {
                        let key = format!("{}", out[i]["side"]);
                        if let Some(&j) = last_of.get(&key) {
                            let q = out[j]["t"].as_i64() < out[i]["t"].as_i64();
                            out[j]["quiet"] = json!(q);
                        }
                        last_of.insert(key, i);
                    }
                }
                for (_, j) in last_of {
                    out[j]["quiet"] = json!(true);
                }
                let lost = e["conns"].as_array().map_or(0, |a| a.iter().filter(|c| c["lost"].as_i64().unwrap_or(0) > 0).count());
                // bytes in flight that consist solely of padded non-ack-eliciting packets on a side that
                // pads to the MTU (signature of a known finding)
                let pad = |side: &str| cfgx[side]["pad_to_mtu"] == true;
                let stuck = e["conns"].as_array().is_some_and(|a| a.iter().any(|c| {
                    c["ifb"].as_i64().unwrap_or(0) > 0 && c["ifae"].as_i64().unwrap_or(0) == 0
                        && pad(if c["n"] == 0 { "server" } else { "client" })
                }));
                // a handshaking side that still owes handshake CRYPTO data, has nothing of the
                // handshake in flight, no timer, and only (unacknowledgeable) 1-RTT packets in flight
                // ... or (the client's side of the same thing: its lost Finished) an established side in
                // that position whose window has no room for another datagram: its probe timer keeps
                // firing for the Data space, where nothing can be acknowledged before the peer completes
                let starved = e["conns"].as_array().is_some_and(|a| a.iter().any(|c| {
                    let owes = c["pcrypto"].as_i64().unwrap_or(0) > 0 && c["hsout"] == 0 && c["ifae"].as_i64().unwrap_or(0) > 0;
                    let no_room = c["cwnd"].as_i64().unwrap_or(1 << 40) - c["ifb"].as_i64().unwrap_or(0) <= 1200;
                    owes && ((c["st"] == 0 && c["tm0"] == -1 && c["tm6"] == -1) || (c["st"] == 1 && no_room))
                }));
                out.push(json!({"ev":"End","t":e["t"],"done":e["apps_done"],"steps":e["steps"],"lost":lost,
                    "stuckpad":stuck,"hsstarved":starved}));
            }
            _ => {}
        }
    }
    out
}

/// C03 / C06: one summary record per run: what was injected (descriptor from the script tag),
/// whether it reached the victim, and what the victim and the bystanders did
pub fn hostile(trace: &[Value]) -> Vec<Value> {
    let tag = &trace[0]["tag"];
    let victim_n: i64 = if tag["victim"] == "c" { 1 } else { 0 };
    let mut tp_s = json!({"set":false});
    let mut tp_c = json!({"set":false});
    let mut applied = false;
    let mut lostv = json!({"k":"none","code":-1});
    let mut losta = json!({"k":"none","code":-1});
    let mut panic = false;
    let mut stepbound = false;
    let mut closev: i64 = -1;
    let mut maxq = [0i64; 7];
    let mut by_done = true;
    let mut by_vn = false;
    let mut accept_err = json!("none");
    let mut read_after = 0i64;
    for e in trace {
        let ev = e["ev"].as_str().unwrap_or("");
        let n = e["n"].as_i64().unwrap_or(-1);
        match ev {
            "TP" if n == 0 => { tp_s = e.clone(); tp_s["set"] = json!(true); }
            "TP" if n == 1 => { tp_c = e.clone(); tp_c["set"] = json!(true); }
            "Rx" if e["cls"] == "inject" && n == victim_n && e["kind"] == "conn" => applied = true,
            // the bystander's own datagrams are damaged too in the raw family: a Version Negotiation packet
            // it provoked (its version field was hit) and that was damaged on the way back (its version
            // list was hit) ends its attempt - Version Negotiation is not integrity protected
            "AppEvent" if e["e"]["k"] == "ConnectionLost" && n == 2 && e["e"]["reason"]["k"] == "VersionMismatch" => by_vn = true,
            "AppEvent" if e["e"]["k"] == "ConnectionLost" && n <= 1 => {
                let r = json!({"k":e["e"]["reason"]["k"],"code":e["e"]["reason"]["code"]});
                if n == victim_n { if lostv["k"] == "none" { lostv = r; } } else if losta["k"] == "none" { losta = r; }
            }
            "Accept" if e["ok"] == false => accept_err = json!(e["err"].as_str().unwrap_or("?").chars().take(60).collect::<String>()),
            "Panic" => panic = true,
            // the harness's own cap on the length of a recording is not a loop in the code under test
            "StepBound" if e["what"] != "max_trace" => stepbound = true,
            "Tx" if n == victim_n => {
                for p in pkts_of(e) {
                    for f in frames_of(p) {
                        if f["f"] == "CONNECTION_CLOSE" && closev < 0 {
                            closev = f["code"].as_i64().unwrap_or(-1);
                        }
                    }
                }
            }
            "Call" if n == victim_n && e["op"] == "read" && applied => {
                // bytes handed to the victim application after the hostile frame arrived
                read_after += e["res"]["total"].as_i64().unwrap_or(0);
            }
            "End" => {
                // bystanders: the applications of client 2 (and the server side serving it)
                by_done = e["apps"].as_array().is_none_or(|a| {
                    a.iter().filter(|x| x["n"] == 2).all(|x| {
                        x["lost"] == false
                            && x["out"].as_array().is_none_or(|o| o.iter().all(|s| s["fin_ev"] == true))
                    })
                });
            }
            _ => {}
        }
        if n == victim_n {
            if let Some(p) = e.get("post") {
                if p.get("sp").is_some() {
                    let sp2 = &p["sp"][2];
                    let vals = [sp2["pretire"].as_i64().unwrap_or(0), sp2["pack"].as_i64().unwrap_or(0),
                        p["streams"]["nrecv"].as_i64().unwrap_or(0), p["streams"]["nsend"].as_i64().unwrap_or(0),
                        p["dgi"].as_i64().unwrap_or(0), sp2["nlost"].as_i64().unwrap_or(0),
                        // memory a stream's reassembly buffer holds beyond the span of its unread data
                        p["streams"]["recv"].as_array().map_or(0, |a| a.iter().map(|r| {
                            r["alloc"].as_i64().unwrap_or(0) - (r["end"].as_i64().unwrap_or(0) - r["br"].as_i64().unwrap_or(0))
                        }).max().unwrap_or(0).max(0))];
                    for i in 0..7 { maxq[i] = maxq[i].max(vals[i]); }
                }
            }
        }
    }
    let tpv = if victim_n == 0 { &tp_s } else { &tp_c };
    let g = |v: &Value, k: &str| cap(&v[k]);
    vec![
        json!({"ev":"Reset","run":trace[0]["run"]}),
        json!({"ev":"Case","victim":if victim_n == 0 { "s" } else { "c" },"d":tag["inject"],"applied":applied,
            "md":g(tpv,"md"),"sdbl":g(tpv,"sdbl"),"sdbr":g(tpv,"sdbr"),"sduni":g(tpv,"sduni"),
            // a warmed-up run has completed one of the peer's bidirectional streams: one more is granted
            "msb":g(tpv,"msb") + if tag["inject"]["warm"] == true { 1 } else { 0 },"msu":g(tpv,"msu"),"dgram":tpv["dgram"].as_i64().unwrap_or(-1).min(1 << 30),
            "lostv":lostv,"losta":losta,"closev":closev,"panic":panic,"stepbound":stepbound,
            "bystander":by_done || (by_vn && tag["family"] == "hostile-raw"),"maxq":maxq.to_vec(),"accept_err":accept_err,"read_after":read_after}),
    ]
}

/// C06 (honest runs): receiver-side accounting from the probe plus the credit put on the wire
pub fn recvlimits(trace: &[Value]) -> Vec<Value> {
    let mut out = vec![json!({"ev":"Reset","run":trace[0]["run"]})];
    let mut rwmax: std::collections::HashMap<i64, i64> = Default::default();
    for e in trace {
        let ev = e["ev"].as_str().unwrap_or("");
        if !matches!(ev, "Tx" | "Rx" | "Call") {
            continue;
        }
        if ev == "Rx" && e["kind"] != "conn" {
            continue;
        }
        let Some(p) = e.get("post") else { continue };
        if p.get("streams").is_none() {
            continue;
        }
        let n = e["n"].as_i64().unwrap_or(0);
        let st = &p["streams"];
        let mut unread = 0i64;
        let mut per: Vec<Value> = Vec::new();
        let mut worst_stream = 0i64;
        for r in st["recv"].as_array().cloned().unwrap_or_default() {
            // a stopped stream and a stream the peer has reset hold nothing: what was not read is discarded
            let held = if r["stopped"] == true || r["st"] == 2 { 0 } else { cap(&r["end"]) - cap(&r["br"]) };
            unread += held;
            worst_stream = worst_stream.max(held);
            per.push(json!([r["id"], cap(&r["br"])]));
        }
        let rw = cap(&st["rw"]).min(1 << 28);
        let m = rwmax.entry(n).or_insert(0);
        *m = (*m).max(rw);
        let mut credits = Vec::new();
        if ev == "Tx" {
            for q in pkts_of(e) {
                for f in frames_of(q) {
                    if f["f"] == "MAX_DATA" {
                        credits.push(json!({"k":"md","id":0,"v":cap(&f["v"]).min(1 << 29),"br":0}));
                    } else if f["f"] == "MAX_STREAM_DATA" {
                        let id = f["id"].as_i64().unwrap_or(-1);
                        // bytes of that stream the application has taken so far (pre-state: reads do
                        // not happen inside poll_transmit)
                        let mut br = -1i64;
                        for r in e["pre"]["streams"]["recv"].as_array().cloned().unwrap_or_default() {
                            if r["id"].as_i64() == Some(id) {
                                br = cap(&r["br"]);
                            }
                        }
                        credits.push(json!({"k":"msd","id":id,"v":cap(&f["v"]).min(1 << 29),"br":br}));
                    }
                }
            }
        }
        // unread application datagrams held against the configured datagram receive buffer
        let side_cfg = &trace[0]["cfgx"][if n == 0 { "server" } else { "client" }];
        let dgcap = side_cfg["dgram_recv_buf"].as_i64().filter(|x| *x >= 0).unwrap_or(1 << 28).min(1 << 28);
        out.push(json!({"ev":"Acct","side":side_of(n),"kind":ev,"dr":cap(&st["dr"]).min(1 << 28),"rw":rw,"rwmax":*m,
            "dgrb":cap(&p["dgrb"]).min(1 << 28),"dgcap":dgcap,
            "debt":cap(&st["debt"]).min(1 << 28),"unread":unread,"worst":worst_stream,
            "srw":cap(&p["streams"].get("srw").cloned().unwrap_or(json!(1 << 28))).min(1 << 28),"credits":credits}));
    }
    out
}

pub fn project(name: &str, trace: &[Value]) -> Vec<Value> {
    match name {
        "lifecycle" => lifecycle(trace),
        "streamdata" => streamdata(trace),
        "antiamp" => antiamp(trace),
        "auth" => auth(trace),
        "flow" => flow(trace),
        "recovery" => recovery(trace),
        "streamsm" => streamsm(trace),
        "progress" => progress(trace),
        "hostile" => hostile(trace),
        "recvlimits" => recvlimits(trace),
        "acks" => crate::proj_ack::acks(trace),
        "routing" => crate::proj_c09::routing(trace),
        "cids" => crate::proj_cid::cids(trace),
        "keys" => crate::proj_key::keys(trace),
        "ecn" => crate::proj_ecn::ecn(trace),
        "hs" => crate::proj_hs::hs(trace),
        "sched" => crate::proj_sched::sched(trace),
        "dispatch" => crate::proj_dispatch::dispatch(trace),
        "retx" => crate::proj_retx::retx(trace),
        "loss" => crate::proj_loss::loss(trace),
        "migration" => crate::proj_c15::migration(trace),
        "dgram" => crate::proj_c16::dgram(trace),
        "zerortt" => crate::proj_c17::zerortt(trace),
        "tokens" => crate::proj_c14::tokens(trace),
        "mtu" => crate::proj_c13::mtu(trace),
        "master" => trace.to_vec(),
        o => panic!("unknown projection {o}"),
    }
}

#[allow(dead_code)]
fn unused() {
    let _ = conns_of;
}
