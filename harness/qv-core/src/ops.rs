//! Application-level operations on a connection, each logged as a `Call` trace line.
use bytes::Bytes;
use quinn_proto::{Dir, ReadError, ReadableError, Side, StreamId, VarInt, WriteError};
use serde_json::{json, Value};

use crate::sim::{bytes_pattern, runs, stream_id_u64, stream_key, World};

pub fn sid(v: u64) -> StreamId {
    StreamId::from(VarInt::from_u64(v).unwrap())
}

pub fn dir_of(i: u64) -> Dir {
    if i == 0 {
        Dir::Bi
    } else {
        Dir::Uni
    }
}

/// Payload key of a stream *as seen by its sender* (node index of the writer decides the salt).
pub fn key_for(_w: &World, writer_node: usize, id: u64) -> u64 {
    let client_node = if writer_node == 0 { 0 } else { writer_node as u64 };
    stream_key(writer_node == 0, id, client_node)
}

impl World {
    /// Execute one application operation; returns the logged line (also appended to the trace).
    pub fn op(&mut self, n: usize, c: usize, op: &Value) -> Value {
        let name = op["op"].as_str().unwrap_or("?").to_string();
        let t = self.now_us;
        if !self.nodes[n].conns.contains_key(&c) {
            let v = json!({"ev":"Call","t":t,"n":n,"c":c,"op":name,"res":{"k":"NoConn"}});
            self.trace.push(v.clone());
            return v;
        }
        let pre = self.probe(n, c);
        let peer = self.nodes[n].conns[&c].peer;
        let mut line = json!({"ev":"Call","t":t,"n":n,"c":c,"op":name,"peer":peer});
        let now = self.now();
        let r = self.guarded(&format!("op:{name}"), |w| {
            let is_server = w.nodes[n].is_server;
            let slot = w.nodes[n].conns.get_mut(&c).unwrap();
            let conn = &mut slot.conn;
            let mut extra = json!({});
            let res: Value = match name.as_str() {
                "open" => {
                    let d = op["dir"].as_u64().unwrap_or(0);
                    extra["dir"] = json!(d);
                    match conn.streams().open(dir_of(d)) {
                        Some(id) => json!({"k":"Some","id":stream_id_u64(id)}),
                        None => json!({"k":"None"}),
                    }
                }
                "accept" => {
                    let d = op["dir"].as_u64().unwrap_or(0);
                    extra["dir"] = json!(d);
                    match conn.streams().accept(dir_of(d)) {
                        Some(id) => json!({"k":"Some","id":stream_id_u64(id)}),
                        None => json!({"k":"None"}),
                    }
                }
                "write" => {
                    let id = op["id"].as_u64().unwrap();
                    let len = op["len"].as_u64().unwrap() as usize;
                    let key = op["key"].as_u64().unwrap_or(0);
                    // "off":"auto" continues the payload pattern at the stream's current send offset
                    let off = if op["off"] == "auto" {
                        pre["streams"]["send"]
                            .as_array()
                            .and_then(|a| a.iter().find(|s| s["id"] == id))
                            .and_then(|s| s["off"].as_u64())
                            .unwrap_or(0)
                    } else {
                        op["off"].as_u64().unwrap_or(0)
                    };
                    extra["id"] = json!(id);
                    extra["len"] = json!(len);
                    extra["off"] = json!(off);
                    extra["key"] = json!(key);
                    let data = bytes_pattern(key, off, len);
                    match conn.send_stream(sid(id)).write(&data) {
                        Ok(k) => json!({"k":"Ok","n":k}),
                        Err(WriteError::Blocked) => json!({"k":"Blocked"}),
                        Err(WriteError::Stopped(code)) => {
                            json!({"k":"Stopped","code":code.into_inner()})
                        }
                        Err(WriteError::ClosedStream) => json!({"k":"ClosedStream"}),
                    }
                }
                "finish" => {
                    let id = op["id"].as_u64().unwrap();
                    extra["id"] = json!(id);
                    match conn.send_stream(sid(id)).finish() {
                        Ok(()) => json!({"k":"Ok"}),
                        Err(quinn_proto::FinishError::Stopped(code)) => {
                            json!({"k":"Stopped","code":code.into_inner()})
                        }
                        Err(quinn_proto::FinishError::ClosedStream) => json!({"k":"ClosedStream"}),
                    }
                }
                "reset" => {
                    let id = op["id"].as_u64().unwrap();
                    let code = op["code"].as_u64().unwrap_or(0);
                    extra["id"] = json!(id);
                    extra["code"] = json!(code);
                    match conn
                        .send_stream(sid(id))
                        .reset(VarInt::from_u64(code).unwrap())
                    {
                        Ok(()) => json!({"k":"Ok"}),
                        Err(_) => json!({"k":"ClosedStream"}),
                    }
                }
                "stopped" => {
                    let id = op["id"].as_u64().unwrap();
                    extra["id"] = json!(id);
                    match conn.send_stream(sid(id)).stopped() {
                        Ok(Some(code)) => json!({"k":"Some","code":code.into_inner()}),
                        Ok(None) => json!({"k":"None"}),
                        Err(_) => json!({"k":"ClosedStream"}),
                    }
                }
                "set_priority" => {
                    let id = op["id"].as_u64().unwrap();
                    let p = op["prio"].as_i64().unwrap_or(0) as i32;
                    extra["id"] = json!(id);
                    extra["prio"] = json!(p);
                    match conn.send_stream(sid(id)).set_priority(p) {
                        Ok(()) => json!({"k":"Ok"}),
                        Err(_) => json!({"k":"ClosedStream"}),
                    }
                }
                "stop" => {
                    let id = op["id"].as_u64().unwrap();
                    let code = op["code"].as_u64().unwrap_or(0);
                    extra["id"] = json!(id);
                    extra["code"] = json!(code);
                    match conn.recv_stream(sid(id)).stop(VarInt::from_u64(code).unwrap()) {
                        Ok(()) => json!({"k":"Ok"}),
                        Err(_) => json!({"k":"ClosedStream"}),
                    }
                }
                "received_reset" => {
                    let id = op["id"].as_u64().unwrap();
                    extra["id"] = json!(id);
                    match conn.recv_stream(sid(id)).received_reset() {
                        Ok(Some(code)) => json!({"k":"Some","code":code.into_inner()}),
                        Ok(None) => json!({"k":"None"}),
                        Err(_) => json!({"k":"ClosedStream"}),
                    }
                }
                "read" => {
                    let id = op["id"].as_u64().unwrap();
                    let ordered = op["ordered"].as_bool().unwrap_or(true);
                    let max_len = op["max_len"].as_u64().unwrap_or(u64::MAX) as usize;
                    let max_chunks = op["max_chunks"].as_u64().unwrap_or(1_000_000);
                    extra["id"] = json!(id);
                    extra["ordered"] = json!(ordered);
                    let mut rs = conn.recv_stream(sid(id));
                    let rr = rs.read(ordered);
                    let v = match rr {
                        Err(ReadableError::ClosedStream) => json!({"k":"ClosedStream","chunks":[]}),
                        Err(ReadableError::IllegalOrderedRead) => {
                            json!({"k":"IllegalOrderedRead","chunks":[]})
                        }
                        Ok(mut chunks) => {
                            let mut out = Vec::new();
                            let mut end = json!({"k":"More"});
                            let mut total = 0u64;
                            for _ in 0..max_chunks {
                                match chunks.next(max_len) {
                                    Ok(Some(ch)) => {
                                        total += ch.bytes.len() as u64;
                                        out.push(json!({"off":ch.offset,"len":ch.bytes.len(),
                                            "runs":runs(&ch.bytes)}));
                                    }
                                    Ok(None) => {
                                        end = json!({"k":"Finished"});
                                        break;
                                    }
                                    Err(ReadError::Blocked) => {
                                        end = json!({"k":"Blocked"});
                                        break;
                                    }
                                    Err(ReadError::Reset(code)) => {
                                        end = json!({"k":"Reset","code":code.into_inner()});
                                        break;
                                    }
                                }
                            }
                            let st = chunks.finalize().should_transmit();
                            let mut r = end;
                            r["chunks"] = json!(out);
                            r["total"] = json!(total);
                            r["tx"] = json!(st);
                            r
                        }
                    };
                    v
                }
                "send_dgram" => {
                    let drop = op["drop"].as_bool().unwrap_or(true);
                    let did = op["did"].as_u64().unwrap_or(0);
                    let max = conn.datagrams().max_size();
                    let space = conn.datagrams().send_buffer_space();
                    // "rel": length relative to the maximum reported right now (boundary cases)
                    let len = match op["rel"].as_i64() {
                        Some(rel) => (max.map_or(0, |x| x as i64) + rel).max(0) as usize,
                        None => op["len"].as_u64().unwrap() as usize,
                    };
                    extra["len"] = json!(len);
                    extra["drop"] = json!(drop);
                    extra["did"] = json!(did);
                    extra["max"] = json!(max.map_or(-1, |x| x as i64));
                    extra["space"] = json!(space);
                    let data = crate::wire::dgram_payload(did, len);
                    let res = match conn.datagrams().send(Bytes::from(data), drop) {
                        Ok(()) => json!({"k":"Ok"}),
                        Err(quinn_proto::SendDatagramError::UnsupportedByPeer) => {
                            json!({"k":"UnsupportedByPeer"})
                        }
                        Err(quinn_proto::SendDatagramError::Disabled) => json!({"k":"Disabled"}),
                        Err(quinn_proto::SendDatagramError::TooLarge) => json!({"k":"TooLarge"}),
                        Err(quinn_proto::SendDatagramError::Blocked(_)) => json!({"k":"Blocked"}),
                    };
                    extra["max_post"] = json!(conn.datagrams().max_size().map_or(-1, |x| x as i64));
                    extra["space_post"] = json!(conn.datagrams().send_buffer_space());
                    res
                }
                "dgram_query" => {
                    // the two read-only queries of the datagram API
                    json!({"k":"Ok","max":conn.datagrams().max_size().map_or(-1, |x| x as i64),
                        "space":conn.datagrams().send_buffer_space()})
                }
                "recv_dgram" => match conn.datagrams().recv() {
                    None => json!({"k":"None"}),
                    Some(b) => {
                        let len = b.len();
                        let (did, hlen, intact) = crate::wire::dgram_ident(&b);
                        json!({"k":"Some","len":len,"did":did,"hlen":hlen,"intact":intact})
                    }
                },
                "close" => {
                    let code = op["code"].as_u64().unwrap_or(0);
                    let reason = op["reason"].as_str().unwrap_or("bye").to_string();
                    extra["code"] = json!(code);
                    extra["reason"] = json!(reason);
                    conn.close(now, VarInt::from_u64(code).unwrap(), Bytes::from(reason));
                    json!({"k":"Ok"})
                }
                "ping" => {
                    conn.ping();
                    json!({"k":"Ok"})
                }
                "key_update" => {
                    conn.force_key_update();
                    json!({"k":"Ok"})
                }
                "set_send_window" => {
                    let v = op["v"].as_u64().unwrap();
                    extra["v"] = json!(v);
                    conn.set_send_window(v);
                    json!({"k":"Ok"})
                }
                "set_receive_window" => {
                    let v = op["v"].as_u64().unwrap();
                    extra["v"] = json!(v);
                    conn.set_receive_window(VarInt::from_u64(v).unwrap());
                    json!({"k":"Ok"})
                }
                "set_max_streams" => {
                    let d = op["dir"].as_u64().unwrap_or(0);
                    let v = op["v"].as_u64().unwrap();
                    extra["dir"] = json!(d);
                    extra["v"] = json!(v);
                    conn.set_max_concurrent_streams(dir_of(d), VarInt::from_u64(v).unwrap());
                    json!({"k":"Ok"})
                }
                "local_address_changed" => {
                    conn.local_address_changed();
                    json!({"k":"Ok"})
                }
                "path_changed" => {
                    conn.path_changed(now);
                    json!({"k":"Ok"})
                }
                "counts" => {
                    let ss = conn.streams().send_streams();
                    let rb = conn.streams().remote_open_streams(Dir::Bi);
                    let ru = conn.streams().remote_open_streams(Dir::Uni);
                    json!({"k":"Ok","send_streams":ss,"remote_bi":rb,"remote_uni":ru,
                        "max_bi":conn.max_concurrent_streams(Dir::Bi),
                        "max_uni":conn.max_concurrent_streams(Dir::Uni)})
                }
                o => panic!("unknown op {o}"),
            };
            let _ = is_server;
            let _ = Side::Client;
            (res, extra)
        });
        if let Some((res, extra)) = r {
            line["res"] = res;
            if let Value::Object(m) = extra {
                for (k, v) in m {
                    line[k] = v;
                }
            }
        } else {
            line["res"] = json!({"k":"Panic"});
        }
        line["pre"] = pre;
        line["post"] = self.probe(n, c);
        self.trace.push(line.clone());
        line
    }

    /// op followed by the usual servicing of the connection
    pub fn op_flush(&mut self, n: usize, c: usize, op: &Value) -> Value {
        let v = self.op(n, c, op);
        self.after_input(n, c);
        v
    }
}
