//! Projection for the acknowledgement specification (AckTrace): which packets reached a connection
//! intact, which ACK frames it sent, and when.
use serde_json::{json, Value};

fn packets(e: &Value) -> Vec<Value> {
    e["ipk"].as_array().cloned().unwrap_or_default().iter()
        .filter(|p| p["ty"] == "P")
        .map(|p| {
            let ae = p["fr"].as_array().is_some_and(|f| f.iter().any(|x| {
                let k = x[0].as_i64().unwrap_or(0);
                k != 1 && k != 4        // anything but ACK and CONNECTION_CLOSE (padding is not listed)
            }));
            json!({"sp":p["sp"],"pn":p["pn"].as_i64().unwrap_or(0).min(1 << 30),"ae":ae})
        }).collect()
}

pub fn acks(trace: &[Value]) -> Vec<Value> {
    let mut pending_new: std::collections::HashMap<i64, Vec<Value>> = Default::default();
    let cfgx = trace[0]["cfgx"].clone();
    let ackfreq = cfgx["server"]["ack_freq"] == true || cfgx["client"]["ack_freq"] == true;
    let mut out = vec![json!({"ev":"Reset","run":trace[0]["run"],"late":cfgx["late_us"].as_i64().unwrap_or(0),
        "ackfreq":ackfreq})];
    for e in trace {
        let ev = e["ev"].as_str().unwrap_or("");
        let t = e["t"].as_i64().unwrap_or(0).min(1 << 30);
        match ev {
            "TP" => {
                // the max_ack_delay a side advertises bounds how long it may sit on an acknowledgement
                out.push(json!({"ev":"Mad","n":e["n"],"c":e["c"],"mad":e["mad"].as_i64().unwrap_or(25) * 1000}));
            }
            "Accept" | "Connect" if e["ok"] == true => {
                out.push(json!({"ev":"Conn","uid":e["uid"],"n":e["n"],"c":e["c"]}));
                if ev == "Accept" {
                    // the datagram that created the connection was handed to the endpoint, not to it
                    if let Some(pks) = pending_new.remove(&e["n"].as_i64().unwrap_or(-1)) {
                        out.push(json!({"ev":"Rcv","uid":e["uid"],"t":t,"pks":pks,"all":false,"est":false,"keys":false,"af":[],"immf":false}));
                    }
                }
            }
            "Rx" if e["kind"] == "new" => {
                pending_new.insert(e["n"].as_i64().unwrap_or(-1), packets(e));
            }
            "Rx" if e["kind"] == "conn" => {
                let uid = e["uid"].as_i64().unwrap_or(-1);
                let pks = packets(e);
                let authed = e["post"]["authed"].as_i64().unwrap_or(0) - e["pre"]["authed"].as_i64().unwrap_or(0);
                // ACK_FREQUENCY requests ([sequence, threshold, max_ack_delay us, reordering threshold]) and
                // IMMEDIATE_ACK frames among the 1-RTT packets of the datagram
                let mut af: Vec<Value> = Vec::new();
                let mut immf = false;
                for p in e["pk"].as_array().cloned().unwrap_or_default() {
                    if p["ty"] != "S" {
                        continue;
                    }
                    for f in p["fr"].as_array().cloned().unwrap_or_default() {
                        if f["f"] == "ACK_FREQUENCY" {
                            af.push(json!([f["seq"].as_i64().unwrap_or(0).min(1 << 30), f["th"].as_i64().unwrap_or(0).min(1 << 30),
                                f["mad"].as_i64().unwrap_or(0).min(1 << 30), f["ro"].as_i64().unwrap_or(0).min(1 << 30)]));
                        }
                        if f["f"] == "IMMEDIATE_ACK" {
                            immf = true;
                        }
                    }
                }
                out.push(json!({"ev":"Rcv","uid":uid,"t":t,"pks":pks,"all":authed as usize >= pks.len() && !pks.is_empty(),
                    "est":e["post"]["st"] == 1,"keys":e["pre"]["sp"][2]["keys"] == true,"af":af,"immf":immf}));
            }
            "Tx" => {
                let uid = e["uid"].as_i64().unwrap_or(-1);
                let mut fr: Vec<Value> = Vec::new();
                let mut afs: Vec<Value> = Vec::new();
                // a transmission made only of packets that carry nothing but ACK (and padding)
                let mut ackonly = true;
                let mut npk = 0;
                for d in e["dgs"].as_array().cloned().unwrap_or_default() {
                    for p in d["pkts"].as_array().cloned().unwrap_or_default() {
                        npk += 1;
                        if p["ae"] == true || p["fr"].as_array().is_some_and(|f| f.iter().any(|x| x["f"] != "ACK" && x["f"] != "PADDING")) {
                            ackonly = false;
                        }
                        for f in p["fr"].as_array().cloned().unwrap_or_default() {
                            if f["f"] == "ACK_FREQUENCY" {
                                afs.push(json!(f["seq"].as_i64().unwrap_or(0).min(1 << 30)));
                            }
                            if f["f"] == "ACK" {
                                let ranges: Vec<Value> = f["ranges"].as_array().cloned().unwrap_or_default().iter()
                                    .map(|r| json!([r[0].as_i64().unwrap_or(0).min(1 << 30), r[1].as_i64().unwrap_or(0).min(1 << 30)])).collect();
                                fr.push(json!({"sp":p["sp"],"ranges":ranges}));
                            }
                        }
                    }
                }
                out.push(json!({"ev":"Snd","uid":uid,"t":t,"acks":fr,"est":e["post"]["st"] == 1,"ackonly":ackonly && npk > 0,"afs":afs}));
            }
            "Timeout" | "Call" => {
                // time passes for the connection: overdue acknowledgements are judged here as well
                // the congestion window has no room for another full datagram (before or after the call:
                // what kept the acknowledgement waiting is the state in which the connection sat)
                let full = |pa: &Value| pa.is_object()
                    && pa["cwnd"].as_i64().unwrap_or(1 << 40) - pa["ifb"].as_i64().unwrap_or(0) <= pa["mtu"].as_i64().unwrap_or(1200);
                let cb = full(&e["post"]["path"]) || full(&e["pre"]["path"]);
                // ... or the pacer makes the connection wait
                let cb = cb || e["post"]["tm"][6].as_i64().unwrap_or(-1) != -1 || e["pre"]["tm"][6].as_i64().unwrap_or(-1) != -1;
                // an unvalidated path may be silenced by the anti-amplification limit (C07's business)
                let cb = cb || e["post"]["path"]["val"] != true || (e["pre"]["path"].is_object() && e["pre"]["path"]["val"] != true);
                out.push(json!({"ev":"Tick","n":e["n"],"c":e["c"],"t":t,"est":e["post"]["st"] == 1,"cb":cb,
                    "val":e["post"]["path"]["val"] == true}));
            }
            _ => {}
        }
    }
    out
}
