//! Projection for the connection-ID management specification (CidTrace): NEW_CONNECTION_ID and
//! RETIRE_CONNECTION_ID frames each side sends and processes, the destination IDs it uses, the limits.
//! Only runs with exactly one client/server connection pair are projected (others: Reset only).
use serde_json::{json, Value};

pub fn cids(trace: &[Value]) -> Vec<Value> {
    let mut out = vec![json!({"ev":"Reset","run":trace[0]["run"]})];
    let conns = trace.iter().filter(|e| (e["ev"] == "Connect" || e["ev"] == "Accept") && e["ok"] == true).count();
    if conns != 2 || trace[0]["clients"].as_i64().unwrap_or(1) != 1 {
        return out;
    }
    let mut last_dcids: std::collections::HashMap<&str, Vec<Value>> = Default::default();
    for e in trace {
        let ev = e["ev"].as_str().unwrap_or("");
        let n = e["n"].as_i64().unwrap_or(-1);
        if !(0..=1).contains(&n) {
            continue;
        }
        let side = if n == 0 { "s" } else { "c" };
        match ev {
            "TP" => out.push(json!({"ev":"Limit","side":side,"acid":e["acid"].as_i64().unwrap_or(2).min(1 << 20)})),
            "Tx" => {
                let mut fr: Vec<Value> = Vec::new();
                let mut dcids: Vec<Value> = Vec::new();
                for d in e["dgs"].as_array().cloned().unwrap_or_default() {
                    for p in d["pkts"].as_array().cloned().unwrap_or_default() {
                        if p["ty"] == "S" {
                            dcids.push(p["dcid"].clone());
                        }
                        if p["scid"].as_str().is_some_and(|s| !s.is_empty()) && p["ty"] != "R" {
                            fr.push(json!({"k":"scid","seq":0,"rpt":0,"cid":p["scid"]}));
                        }
                        for f in p["fr"].as_array().cloned().unwrap_or_default() {
                            match f["f"].as_str().unwrap_or("") {
                                "NEW_CONNECTION_ID" => fr.push(json!({"k":"new","seq":f["seq"].as_i64().unwrap_or(0).min(1 << 28),
                                    "rpt":f["rpt"].as_i64().unwrap_or(0).min(1 << 28),"cid":f["cid"]})),
                                "RETIRE_CONNECTION_ID" => fr.push(json!({"k":"retire","seq":f["seq"].as_i64().unwrap_or(0).min(1 << 28),"rpt":0,"cid":""})),
                                _ => {}
                            }
                        }
                    }
                }
                // the order of frames inside one transmission carries no meaning
                fr.sort_by_key(|f| (match f["k"].as_str().unwrap_or("") { "scid" => 0, "new" => 1, _ => 2 }, f["seq"].as_i64().unwrap_or(0)));
                dcids.dedup();
                // transmissions that carry no ID management frame matter only when the destination changes
                let same = fr.is_empty() && last_dcids.get(side) == Some(&dcids);
                if !dcids.is_empty() {
                    last_dcids.insert(side, dcids.clone());
                }
                if (!fr.is_empty() || !dcids.is_empty()) && !same {
                    out.push(json!({"ev":"Sent","side":side,"fr":fr,"dcids":dcids}));
                }
            }
            "Rx" if e["kind"] == "conn" => {
                // frames that arrived in genuine packets and were processed (FrameStats moved)
                let dfr = &e["dfr"];
                let genuine = matches!(e["cls"].as_str().unwrap_or(""), "gen" | "dup" | "spoof");
                if !genuine {
                    continue;
                }
                let mut fr: Vec<Value> = Vec::new();
                for p in e["pk"].as_array().cloned().unwrap_or_default() {
                    for f in p["fr"].as_array().cloned().unwrap_or_default() {
                        match f["f"].as_str().unwrap_or("") {
                            "NEW_CONNECTION_ID" if dfr[12].as_i64().unwrap_or(0) > 0 => fr.push(json!({"k":"new",
                                "seq":f["seq"].as_i64().unwrap_or(0).min(1 << 28),"rpt":f["rpt"].as_i64().unwrap_or(0).min(1 << 28)})),
                            "RETIRE_CONNECTION_ID" if dfr[18].as_i64().unwrap_or(0) > 0 => fr.push(json!({"k":"retire",
                                "seq":f["seq"].as_i64().unwrap_or(0).min(1 << 28),"rpt":0})),
                            _ => {}
                        }
                    }
                }
                if !fr.is_empty() {
                    out.push(json!({"ev":"Arrived","side":side,"fr":fr}));
                }
            }
            _ => {}
        }
    }
    out
}
