//! Direct replay of call histories into the built-in congestion controllers (C12, controller part)
use std::{
    io::{BufRead, BufWriter, Write},
    sync::{Arc, Mutex},
    time::{Duration, Instant},
};

use quinn_proto::{congestion, RttEstimator};
use serde_json::{json, Value};

use crate::{script::Runner, sim::Cfg};

/// A controller that only exists to capture an `RttEstimator` from a live connection
#[derive(Clone)]
struct Capture(Arc<Mutex<Option<RttEstimator>>>);
impl congestion::Controller for Capture {
    fn on_ack(&mut self, _: Instant, _: Instant, _: u64, _: bool, rtt: &RttEstimator) {
        *self.0.lock().unwrap() = Some(*rtt);
    }
    fn on_congestion_event(&mut self, _: Instant, _: Instant, _: bool, _: bool, _: u64) {}
    fn on_mtu_update(&mut self, _: u16) {}
    fn window(&self) -> u64 {
        1_000_000
    }
    fn clone_box(&self) -> Box<dyn congestion::Controller> {
        Box::new(self.clone())
    }
    fn initial_window(&self) -> u64 {
        1_000_000
    }
    fn into_any(self: Box<Self>) -> Box<dyn std::any::Any> {
        self
    }
}
struct CaptureFactory(Arc<Mutex<Option<RttEstimator>>>);
impl congestion::ControllerFactory for CaptureFactory {
    fn build(self: Arc<Self>, _: Instant, _: u16) -> Box<dyn congestion::Controller> {
        Box::new(Capture(self.0.clone()))
    }
}

pub fn harvest_rtt() -> RttEstimator {
    let slot = Arc::new(Mutex::new(None));
    let cfg: Cfg = serde_json::from_str("{}").unwrap();
    let mut r = Runner::new(cfg, 0);
    let mut t = quinn_proto::TransportConfig::default();
    t.congestion_controller_factory(Arc::new(CaptureFactory(slot.clone())));
    r.w.client_tcfg = Arc::new(t);
    r.w.max_trace = 5000;
    let c = r.w.connect(1).unwrap();
    r.w.after_input(1, c);
    r.run_for(500_000);
    let x = slot.lock().unwrap().expect("no rtt sample captured");
    x
}

pub fn run(histories: &str, out: &str) {
    let rtt = harvest_rtt();
    let inp = std::fs::File::open(histories).expect("histories");
    let mut o = BufWriter::new(std::fs::File::create(out).expect("out"));
    let mut run = 0u64;
    for line in std::io::BufReader::new(inp).lines() {
        let line = line.unwrap();
        if line.trim().is_empty() {
            continue;
        }
        let h: Value = serde_json::from_str(&line).unwrap();
        let calls = h.as_array().cloned().unwrap_or_default();
        for name in ["newreno", "cubic", "bbr"] {
            let base = Instant::now();
            let mut now_ms: u64 = 1000;
            let t0 = base + Duration::from_millis(now_ms);
            let mut ctl: Box<dyn congestion::Controller> = match name {
                "newreno" => congestion::ControllerFactory::build(
                    Arc::new(congestion::NewRenoConfig::default()),
                    t0,
                    1200,
                ),
                "cubic" => congestion::ControllerFactory::build(
                    Arc::new(congestion::CubicConfig::default()),
                    t0,
                    1200,
                ),
                _ => congestion::ControllerFactory::build(
                    Arc::new(congestion::BbrConfig::default()),
                    t0,
                    1200,
                ),
            };
            writeln!(o, "{}", json!({"ev":"Reset","run":run,"ctl":name,"w":ctl.window(),"mtu":1200,"t":now_ms})).unwrap();
            let mut pn = 0u64;
            let mut in_flight = 0u64;
            for c in &calls {
                let op = c.as_str().unwrap_or("");
                let now = base + Duration::from_millis(now_ms);
                let ago = |ms: u64| base + Duration::from_millis(now_ms.saturating_sub(ms));
                let mut rec = json!({"ev":"Call","op":op,"t":now_ms});
                let r = std::panic::catch_unwind(std::panic::AssertUnwindSafe(|| match op {
                    "s" => {
                        pn += 1;
                        in_flight += 1200;
                        ctl.on_sent(now, 1200, pn);
                    }
                    "a" => {
                        in_flight = in_flight.saturating_sub(1200);
                        ctl.on_ack(now, ago(50), 1200, false, &rtt);
                    }
                    "A" => {
                        in_flight = in_flight.saturating_sub(12000);
                        ctl.on_ack(now, ago(10), 12000, false, &rtt);
                    }
                    "z" => ctl.on_ack(now, ago(5000), 1200, true, &rtt),
                    "e" => ctl.on_end_acks(now, in_flight, false, Some(pn)),
                    "l" => ctl.on_congestion_event(now, ago(20), false, false, 1200),
                    "L" => ctl.on_congestion_event(now, ago(100_000), false, false, 50_000),
                    "p" => ctl.on_congestion_event(now, ago(1), true, false, 2400),
                    "c" => ctl.on_congestion_event(now, ago(30), false, true, 0),
                    "m" => ctl.on_mtu_update(1452),
                    "M" => ctl.on_mtu_update(1200),
                    "u" => ctl.on_mtu_update(9000),
                    "x" => ctl.on_spurious_congestion_event(),
                    _ => {}
                }));
                if op == "t" {
                    now_ms += 100;
                }
                if op == "T" {
                    now_ms += 10_000;
                }
                rec["mtu"] = json!(match op {
                    "m" => 1452,
                    "M" => 1200,
                    "u" => 9000,
                    _ => -1,
                });
                if r.is_err() {
                    rec["ev"] = json!("Panic");
                    writeln!(o, "{}", rec).unwrap();
                    break;
                }
                rec["w"] = json!(ctl.window().min(1 << 30));
                writeln!(o, "{}", rec).unwrap();
            }
            run += 1;
        }
    }
}
