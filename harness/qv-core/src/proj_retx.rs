//! Projection for the control-information specification (RetxTrace): the subjects and values every
//! side put on the wire, the ones that certainly or possibly reached the peer's connection, and at
//! the end of the run whether each side is quiet and which subjects no longer matter.
//! Only runs with exactly one client/server connection pair are projected.
use serde_json::{json, Value};
use std::collections::BTreeSet;

fn cap(v: &Value) -> i64 {
    v.as_i64().unwrap_or(0).min(1 << 30)
}

/// [kind, key, value] of the frames that carry control information which must arrive
fn facts(p: &Value) -> Vec<Value> {
    let mut out = Vec::new();
    for f in p["fr"].as_array().cloned().unwrap_or_default() {
        match f["f"].as_str().unwrap_or("") {
            "MAX_DATA" => out.push(json!(["md", 0, cap(&f["v"])])),
            "MAX_STREAM_DATA" => out.push(json!(["msd", cap(&f["id"]), cap(&f["v"])])),
            "MAX_STREAMS" => out.push(json!(["ms", if f["uni"] == true { 1 } else { 0 }, cap(&f["v"])])),
            "RESET_STREAM" => out.push(json!(["rst", cap(&f["id"]), 1])),
            "STOP_SENDING" => out.push(json!(["stop", cap(&f["id"]), 1])),
            "HANDSHAKE_DONE" => out.push(json!(["hd", 0, 1])),
            "NEW_CONNECTION_ID" => out.push(json!(["ncid", cap(&f["seq"]), 1])),
            "RETIRE_CONNECTION_ID" => out.push(json!(["rcid", cap(&f["seq"]), 1])),
            _ => {}
        }
    }
    out
}

pub fn retx(trace: &[Value]) -> Vec<Value> {
    let mut out = vec![json!({"ev":"Reset","run":trace[0]["run"]})];
    let conns = trace.iter().filter(|e| (e["ev"] == "Connect" || e["ev"] == "Accept") && e["ok"] == true).count();
    if conns != 2 || trace[0]["clients"].as_i64().unwrap_or(1) != 1 {
        return out;
    }
    let mut last_fault_t: i64 = 0;
    for e in trace {
        let ev = e["ev"].as_str().unwrap_or("");
        let n = e["n"].as_i64().unwrap_or(-1);
        match ev {
            "Tx" if (0..=1).contains(&n) => {
                let side = if n == 0 { "s" } else { "c" };
                let mut fr: Vec<Value> = Vec::new();
                for d in e["dgs"].as_array().cloned().unwrap_or_default() {
                    if d["fate"] != "ok" {
                        last_fault_t = last_fault_t.max(cap(&e["t"]));
                    }
                    for p in d["pkts"].as_array().cloned().unwrap_or_default() {
                        if p["ty"] == "S" {
                            fr.extend(facts(&p));
                        }
                    }
                }
                if !fr.is_empty() {
                    out.push(json!({"ev":"S","side":side,"fr":fr}));
                }
            }
            "Rx" if e["kind"] == "conn" && (0..=1).contains(&n) => {
                // frames that reached the connection of node n were sent by the other side
                let from = if n == 0 { "c" } else { "s" };
                let authed = cap(&e["post"]["authed"]) - cap(&e["pre"]["authed"]);
                if authed <= 0 || cap(&e["pre"]["st"]) >= 2 {
                    continue;
                }
                let mut fr: Vec<Value> = Vec::new();
                for p in e["pk"].as_array().cloned().unwrap_or_default() {
                    if p["ty"] == "S" {
                        fr.extend(facts(&p));
                    }
                }
                if !fr.is_empty() {
                    out.push(json!({"ev":"D","side":from,"fr":fr}));
                }
            }
            "End" => {
                let cs = e["conns"].as_array().cloned().unwrap_or_default();
                let get = |n: i64| cs.iter().find(|c| c["n"] == n).cloned().unwrap_or(Value::Null);
                let (srv, cli) = (get(0), get(1));
                let open = srv["st"] == 1 && cli["st"] == 1 && srv["drained"] != true && cli["drained"] != true;
                let settled = cap(&e["t"]) - last_fault_t >= 1_000_000 && e["panicked"] != true && cap(&e["net"]) == 0;
                // nothing in flight at all (padded acknowledgements count against the window too), no loss timer
                let quiet = |c: &Value| open && settled && cap(&c["ifae"]) == 0 && cap(&c["ifb"]) == 0 && cap(&c["tm0"]) == -1;
                // subjects that no longer matter at the end
                let skip = |me: &Value, peer: &Value| -> Vec<Value> {
                    let mut v: BTreeSet<(String, i64)> = BTreeSet::new();
                    let peer_send: Vec<(i64, i64, i64)> = peer["sall"].as_array().cloned().unwrap_or_default().iter()
                        .map(|x| (cap(&x[0]), cap(&x[1]), cap(&x[2]))).collect();
                    // (a receiver that has stopped a stream grants no further credit for it)
                    let my_recv: Vec<i64> = me["rall"].as_array().cloned().unwrap_or_default().iter()
                        .filter(|x| x[2] != true).map(|x| cap(&x[0])).collect();
                    // credit and STOP_SENDING for a stream matter only while the peer can still send on it
                    for id in 0..400i64 {
                        let alive = peer_send.iter().any(|(i, st, _)| *i == id && *st == 0) && my_recv.contains(&id);
                        if !alive {
                            v.insert(("msd".into(), id));
                        }
                        let sending = peer_send.iter().any(|(i, st, _)| *i == id && *st <= 1);
                        if !sending {
                            v.insert(("stop".into(), id));
                        }
                    }
                    v.into_iter().map(|(k, id)| json!([k, id])).collect()
                };
                out.push(json!({"ev":"End","quiet":{"s":quiet(&srv),"c":quiet(&cli)},
                    "skip":{"s":skip(&srv, &cli),"c":skip(&cli, &srv)}}));
            }
            _ => {}
        }
    }
    out
}
