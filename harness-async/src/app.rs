//! Scripted application tasks exercising quinn's public async API, and the per-run driver.
//!
//! A script is a JSON object {run, seed, cfg, tasks:[{ep, root, ops:[...]}]}.  Root tasks are started
//! with the only application handle of their endpoint; other tasks are started by a `spawn` op and
//! inherit a clone of the spawner's connection (and endpoint, if asked).  Every API call is logged
//! with its inputs and outputs; nothing is judged here.

use std::{
    collections::BTreeMap,
    future::Future,
    net::{IpAddr, Ipv4Addr, SocketAddr},
    pin::Pin,
    sync::{Arc, Mutex},
    task::{Context, Poll},
    time::{Duration, SystemTime, UNIX_EPOCH},
};

use bytes::Bytes;
use quinn::{
    ClientConfig, Connection, ConnectionError, Endpoint, EndpointConfig, IdleTimeout, Incoming, ReadError, RecvStream,
    SendStream, ServerConfig, StoppedError, TransportConfig, VarInt, WriteError,
};
use serde_json::{json, Value};

use crate::exec::{Exec, NetCfg, SchedCfg, Sh, SimRuntime, SimSocket, SimTimer, Stop, BoxFut};
use qv_core::{
    sim::DetCidGen,
    toycrypto::{ToyClientConfig, ToyHmacKey, ToyServerConfig, ToyTokenKey},
};

// ------------------------------------------------------------------------------------------------
// configuration

#[derive(Clone, Debug, serde::Deserialize)]
#[serde(default)]
pub struct Cfg {
    pub net: NetCfg,
    pub sched: SchedCfg,
    pub clients: usize,
    pub idle_ms: u64,
    pub keepalive_ms: u64,
    pub stream_window: u64,
    pub send_window: u64,
    pub max_uni: u64,
    pub max_bi: u64,
    /// harness keeps one Endpoint handle per endpoint until the very end (to read open_connections)
    pub sup_hold: bool,
    pub max_polls: u64,
    pub max_time_ms: u64,
    /// 0-RTT: the clients hold a session ticket (the server's transport parameters of an earlier connection)
    pub ticket: bool,
    /// 0-RTT: the server accepts early data
    pub early_accept: bool,
}
impl Default for Cfg {
    fn default() -> Self {
        Self {
            net: NetCfg::default(),
            sched: SchedCfg::default(),
            clients: 1,
            idle_ms: 0,
            keepalive_ms: 0,
            stream_window: 4000,
            send_window: 0,
            max_uni: 4,
            max_bi: 4,
            sup_hold: true,
            max_polls: 40_000,
            max_time_ms: 600_000,
            ticket: false,
            early_accept: false,
        }
    }
}

struct SimClock(Arc<Sh>);
impl quinn::TimeSource for SimClock {
    fn now(&self) -> SystemTime {
        UNIX_EPOCH + Duration::from_secs(1_700_000_000) + Duration::from_micros(self.0.now_us())
    }
}

fn transport(cfg: &Cfg) -> TransportConfig {
    let mut t = TransportConfig::default();
    t.max_idle_timeout(if cfg.idle_ms == 0 {
        None
    } else {
        Some(IdleTimeout::from(VarInt::from_u64(cfg.idle_ms).unwrap()))
    });
    t.keep_alive_interval(if cfg.keepalive_ms == 0 { None } else { Some(Duration::from_millis(cfg.keepalive_ms)) });
    t.stream_receive_window(VarInt::from_u64(cfg.stream_window).unwrap());
    if cfg.send_window > 0 {
        t.send_window(cfg.send_window);
    }
    t.max_concurrent_uni_streams(VarInt::from_u64(cfg.max_uni).unwrap());
    t.max_concurrent_bidi_streams(VarInt::from_u64(cfg.max_bi).unwrap());
    t.mtu_discovery_config(None);
    t
}

fn ep_config(seed: u64, tag: u8) -> EndpointConfig {
    let mut e = EndpointConfig::new(Arc::new(ToyHmacKey(0x1234 + tag as u64)));
    let mut s = [0u8; 32];
    s[..8].copy_from_slice(&seed.to_le_bytes());
    s[31] = tag;
    e.rng_seed(Some(s));
    let gseed = seed ^ ((tag as u64) << 48);
    e.cid_generator(Arc::new(move || -> Box<dyn quinn::ConnectionIdGenerator> {
        Box::new(DetCidGen { cid_len: 8, state: gseed, lifetime: None })
    }));
    e.grease_quic_bit(false);
    e
}

pub fn server_addr() -> SocketAddr {
    SocketAddr::new(IpAddr::V4(Ipv4Addr::new(10, 0, 0, 1)), 4433)
}
pub fn client_addr(i: usize) -> SocketAddr {
    SocketAddr::new(IpAddr::V4(Ipv4Addr::new(10, 0, 1, 1 + i as u8)), 5000 + i as u16)
}

// ------------------------------------------------------------------------------------------------
// payload pattern: byte at offset o of direction (conn c, stream sid, writer side w)

pub fn key(c: i64, sid: i64, w: i64) -> u64 {
    ((7 + 31 * sid + 101 * c + 13 * w).rem_euclid(251)) as u64
}
pub fn pattern(c: i64, sid: i64, w: i64, off: u64, n: usize) -> Vec<u8> {
    let k = key(c, sid, w);
    (0..n as u64).map(|i| ((k + off + i) % 251) as u8).collect()
}
/// (first byte, number of maximal +1 (mod 251) runs) of a received chunk
pub fn runs(b: &[u8]) -> (u64, u64) {
    if b.is_empty() {
        return (0, 0);
    }
    let mut r = 1;
    for i in 1..b.len() {
        if b[i] as u64 != (b[i - 1] as u64 + 1) % 251 {
            r += 1;
        }
    }
    (b[0] as u64, r)
}

/// errors are logged as (kind, code, lost) — lost = the error wraps a ConnectionError
fn conn_err(e: &ConnectionError) -> Value {
    let (k, c): (&str, u64) = match e {
        ConnectionError::LocallyClosed => ("LocallyClosed", 0),
        ConnectionError::ApplicationClosed(a) => ("AppClosed", a.error_code.into_inner()),
        ConnectionError::ConnectionClosed(c) => ("ConnClosed", u64::from(c.error_code)),
        ConnectionError::TimedOut => ("TimedOut", 0),
        ConnectionError::Reset => ("ResetConn", 0),
        ConnectionError::TransportError(t) => ("Transport", u64::from(t.code)),
        ConnectionError::VersionMismatch => ("VersionMismatch", 0),
        ConnectionError::CidsExhausted => ("CidsExhausted", 0),
    };
    json!({"res":"err","err":k,"ecode":c.min(1_000_000),"lost":true})
}
fn plain_err(k: &str, code: u64) -> Value {
    json!({"res":"err","err":k,"ecode":code.min(1_000_000),"lost":false})
}
fn read_err(e: &ReadError) -> Value {
    match e {
        ReadError::Reset(c) => plain_err("Reset", c.into_inner()),
        ReadError::ConnectionLost(e) => conn_err(e),
        ReadError::ClosedStream => plain_err("ClosedStream", 0),
        ReadError::IllegalOrderedRead => plain_err("IllegalOrderedRead", 0),
        ReadError::ZeroRttRejected => plain_err("ZeroRttRejected", 0),
    }
}
fn write_err(e: &WriteError) -> Value {
    match e {
        WriteError::Stopped(c) => plain_err("Stopped", c.into_inner()),
        WriteError::ConnectionLost(e) => conn_err(e),
        WriteError::ClosedStream => plain_err("ClosedStream", 0),
        WriteError::ZeroRttRejected => plain_err("ZeroRttRejected", 0),
    }
}
/// merge b into a
fn with(mut a: Value, b: Value) -> Value {
    if let (Some(m), Some(x)) = (a.as_object_mut(), b.as_object()) {
        for (k, v) in x {
            m.insert(k.clone(), v.clone());
        }
    }
    a
}

// ------------------------------------------------------------------------------------------------
// cancellation wrapper: poll the operation first; give up after k pending polls or when a virtual
// timer fires (the `select!` / `timeout` pattern)

enum Out<T> {
    Done(T),
    Cancelled,
}

struct CancelFut<'a, T> {
    fut: Pin<Box<dyn Future<Output = T> + Send + 'a>>,
    polls_left: Option<u32>,
    timer: Option<SimTimer>,
}
impl<T> Future for CancelFut<'_, T> {
    type Output = Out<T>;
    fn poll(self: Pin<&mut Self>, cx: &mut Context<'_>) -> Poll<Out<T>> {
        let this = self.get_mut();
        if let Poll::Ready(v) = this.fut.as_mut().poll(cx) {
            return Poll::Ready(Out::Done(v));
        }
        if let Some(k) = this.polls_left.as_mut() {
            *k = k.saturating_sub(1);
            if *k == 0 {
                return Poll::Ready(Out::Cancelled);
            }
        }
        if let Some(t) = this.timer.as_ref() {
            if t.poll_timer(cx).is_ready() {
                return Poll::Ready(Out::Cancelled);
            }
        }
        Poll::Pending
    }
}

struct YieldNow(bool);
impl Future for YieldNow {
    type Output = ();
    fn poll(mut self: Pin<&mut Self>, cx: &mut Context<'_>) -> Poll<()> {
        if self.0 {
            return Poll::Ready(());
        }
        self.0 = true;
        cx.waker().wake_by_ref();
        Poll::Pending
    }
}

// ------------------------------------------------------------------------------------------------
// task state

pub struct Shared {
    pub sh: Arc<Sh>,
    pub script: Value,
    pub cfg: Cfg,
    /// live handle counts per (conn, side) — Connecting/Connection/SendStream/RecvStream objects held by tasks
    pub hc: Mutex<BTreeMap<(i64, i64), i64>>,
    /// live Endpoint handles per endpoint index
    pub ec: Mutex<BTreeMap<i64, i64>>,
    pub dgram_tag: Mutex<BTreeMap<(i64, i64), i64>>,
    pub client_cfg: Vec<ClientConfig>,
}

struct SendH {
    s: SendStream,
    sid: i64,
    woff: u64,
    dirty: bool,
}
struct RecvH {
    r: RecvStream,
    sid: i64,
    roff: u64,
    dirty: bool,
}

struct Task {
    g: Arc<Shared>,
    /// executor task id, filled in by the first poll
    id: usize,
    e: i64,
    ep: Option<Endpoint>,
    c: i64,
    side: i64,
    conn: Option<Connection>,
    send: Option<SendH>,
    recv: Option<RecvH>,
}

fn no_retry(op: &Value) -> Value {
    let mut o = op.clone();
    o["retry"] = json!(false);
    o
}

fn geti(v: &Value, k: &str, d: i64) -> i64 {
    v.get(k).and_then(|x| x.as_i64()).unwrap_or(d)
}

impl Task {
    fn hc_add(&self, c: i64, side: i64, d: i64) -> i64 {
        let mut m = self.g.hc.lock().unwrap();
        let e = m.entry((c, side)).or_insert(0);
        *e += d;
        *e
    }
    fn ec_add(&self, e: i64, d: i64) -> i64 {
        let mut m = self.g.ec.lock().unwrap();
        let x = m.entry(e).or_insert(0);
        *x += d;
        *x
    }

    fn ev(&self, ev: &str, op: &str, extra: Value) {
        let mut o = json!({"ev": ev, "task": self.id, "op": op, "c": self.c, "side": self.side, "e": self.e,
                           "sid": -1, "n": 0, "off": 0, "res": "", "err": "", "ecode": 0, "lost": false, "chunks": []});
        if let (Some(m), Some(x)) = (o.as_object_mut(), extra.as_object()) {
            for (k, v) in x {
                m.insert(k.clone(), v.clone());
            }
        }
        self.g.sh.log(&o.to_string());
    }
    fn start(&self, op: &str, extra: Value) {
        self.g.sh.set_cur_op(self.id, Some(op));
        self.ev("OpStart", op, extra);
    }
    fn done(&self, op: &str, extra: Value) {
        self.g.sh.set_cur_op(self.id, None);
        self.ev("OpDone", op, extra);
    }
    fn dropped(&self, op: &str, extra: Value) {
        self.g.sh.set_cur_op(self.id, None);
        self.ev("FutureDropped", op, extra);
    }
    fn sync(&self, op: &str, extra: Value) {
        self.ev("Sync", op, extra);
    }
    fn handle_dropped(&self, kind: &str, c: i64, side: i64, sid: i64, left: i64) {
        self.g.sh.logv(json!({"ev":"HandleDropped","task":self.id,"kind":kind,"c":c,"side":side,"e":self.e,"sid":sid,"left":left}));
    }

    fn cancel_of(&self, op: &Value, attempt: usize) -> (Option<u32>, Option<SimTimer>) {
        let Some(c) = op.get("cancel").and_then(|c| c.as_array()).and_then(|a| a.get(attempt)) else {
            return (None, None);
        };
        let polls = c.get("polls").and_then(|x| x.as_u64()).map(|x| x.max(1) as u32);
        let timer = c.get("us").and_then(|x| x.as_u64()).map(|us| {
            let now = self.g.sh.now_us();
            SimTimer::new(self.g.sh.clone(), now + us)
        });
        (polls, timer)
    }

    fn drop_send(&mut self) {
        if let Some(h) = self.send.take() {
            let sid = h.sid;
            drop(h);
            let left = self.hc_add(self.c, self.side, -1);
            self.handle_dropped("send", self.c, self.side, sid, left);
        }
    }
    fn drop_recv(&mut self) {
        if let Some(h) = self.recv.take() {
            let sid = h.sid;
            drop(h);
            let left = self.hc_add(self.c, self.side, -1);
            self.handle_dropped("recv", self.c, self.side, sid, left);
        }
    }
    fn drop_conn(&mut self) {
        if let Some(c) = self.conn.take() {
            // what the connection's loss detection made of the network, for the clean-network clause
            let st = c.stats();
            self.sync("conn_stats", json!({"n": st.path.lost_packets.min(1_000_000), "off": st.path.sent_packets.min(1_000_000)}));
            drop(c);
            let left = self.hc_add(self.c, self.side, -1);
            self.handle_dropped("conn", self.c, self.side, -1, left);
        }
    }
    fn drop_ep(&mut self) {
        if let Some(e) = self.ep.take() {
            drop(e);
            let left = self.ec_add(self.e, -1);
            self.handle_dropped("ep", -1, -1, -1, left);
        }
    }
}

/// Await `$mk` (re-evaluated for each attempt) under the op's cancellation plan.
/// Evaluates to Some(output) or None if the future was dropped and not retried.
macro_rules! await_op {
    ($t:expr, $op:expr, $name:expr, $startx:expr, $mk:expr) => {{
        let mut attempt = 0usize;
        let retry = $op.get("retry").and_then(|x| x.as_bool()).unwrap_or(false);
        loop {
            $t.start($name, $startx);
            let (polls, timer) = $t.cancel_of($op, attempt);
            let out = {
                let fut = CancelFut { fut: Box::pin($mk), polls_left: polls, timer };
                fut.await
            };
            match out {
                Out::Done(v) => break Some(v),
                Out::Cancelled => {
                    $t.dropped($name, $startx);
                    attempt += 1;
                    if !retry {
                        break None;
                    }
                }
            }
        }
    }};
}

fn boxed_task(t: Task, ops: Vec<Value>) -> BoxFut {
    Box::pin(run_task(t, ops))
}

async fn run_task(mut t: Task, ops: Vec<Value>) {
    t.id = t.g.sh.current() as usize;
    for op in ops.iter() {
        let name = op.get("op").and_then(|x| x.as_str()).unwrap_or("");
        match name {
            // ---------------------------------------------------------------- connection setup
            "connect" => {
                let Some(ep) = t.ep.clone() else { continue };
                t.ec_add(t.e, 1);
                let c = t.e - 1;
                t.drop_recv();
                t.drop_send();
                t.drop_conn();
                t.c = c;
                t.side = 1;
                let cc = t.g.client_cfg[c as usize].clone();
                match ep.connect_with(cc, server_addr(), "qv") {
                    Err(e) => {
                        t.sync("connect_fail", json!({"err": format!("{:?}", e)}));
                    }
                    Ok(connecting) => {
                        t.hc_add(c, 1, 1);
                        let mut connecting = Some(connecting);
                        if op.get("zero_rtt").and_then(|x| x.as_bool()).unwrap_or(false) {
                            // Connecting::into_0rtt: usable at once when a ticket is held
                            match connecting.take().unwrap().into_0rtt() {
                                Ok(conn) => {
                                    t.conn = Some(conn);
                                    t.sync("connect_0rtt", json!({"res":"ok"}));
                                    drop(ep);
                                    t.ec_add(t.e, -1);
                                    continue;
                                }
                                Err(cg) => {
                                    t.sync("connect_0rtt", json!({"res":"err"}));
                                    connecting = Some(cg);
                                }
                            }
                        }
                        let r = await_op!(t, op, "connect", json!({}), connecting.take().expect("connect is not retried"));
                        match r {
                            Some(Ok(conn)) => {
                                t.conn = Some(conn);
                                t.done("connect", json!({"res":"ok"}));
                            }
                            Some(Err(e)) => {
                                let left = t.hc_add(c, 1, -1);
                                t.done("connect", conn_err(&e));
                                t.handle_dropped("connecting", c, 1, -1, left);
                            }
                            None => {
                                let left = t.hc_add(c, 1, -1);
                                t.handle_dropped("connecting", c, 1, -1, left);
                            }
                        }
                    }
                }
                drop(ep);
                t.ec_add(t.e, -1);
            }
            "accept_conn" => {
                let Some(ep) = t.ep.clone() else { continue };
                t.ec_add(t.e, 1);
                t.drop_recv();
                t.drop_send();
                t.drop_conn();
                t.c = -1;
                t.side = 0;
                let inc: Option<Option<Incoming>> = await_op!(t, op, "ep_accept", json!({}), ep.accept());
                match inc {
                    None => {}
                    Some(None) => t.done("ep_accept", json!({"res":"none"})),
                    Some(Some(incoming)) => {
                        let c = incoming.remote_address().port() as i64 - 5000;
                        t.c = c;
                        t.done("ep_accept", json!({"res":"ok","c":c}));
                        // the task holds the Incoming for a while before it decides: other tasks (one that
                        // closes the endpoint, say) run in between
                        for _ in 0..op.get("hold").and_then(|x| x.as_u64()).unwrap_or(0) {
                            YieldNow(false).await;
                        }
                        let act = op.get("inc").and_then(|x| x.as_str()).unwrap_or("accept");
                        match act {
                            "refuse" => {
                                incoming.refuse();
                                t.sync("inc_refuse", json!({}));
                            }
                            "ignore" => {
                                incoming.ignore();
                                t.sync("inc_ignore", json!({}));
                            }
                            "drop" => {
                                drop(incoming);
                                t.sync("inc_drop", json!({}));
                            }
                            "retry" if incoming.may_retry() => {
                                let _ = incoming.retry();
                                t.sync("inc_retry", json!({}));
                            }
                            _ => match incoming.accept() {
                                Err(e) => t.sync("inc_accept", conn_err(&e)),
                                Ok(connecting) => {
                                    t.hc_add(c, 0, 1);
                                    t.sync("inc_accept", json!({"res":"ok"}));
                                    let mut connecting = Some(connecting);
                                    let hop = json!({});
                                    let r = await_op!(t, &hop, "handshake", json!({}), connecting.take().unwrap());
                                    match r {
                                        Some(Ok(conn)) => {
                                            t.conn = Some(conn);
                                            t.done("handshake", json!({"res":"ok"}));
                                        }
                                        Some(Err(e)) => {
                                            let left = t.hc_add(c, 0, -1);
                                            t.done("handshake", conn_err(&e));
                                            t.handle_dropped("connecting", c, 0, -1, left);
                                        }
                                        None => {}
                                    }
                                }
                            },
                        }
                    }
                }
                drop(ep);
                t.ec_add(t.e, -1);
            }
            "spawn" => {
                let idx = geti(op, "t", -1);
                let Some(spec) = t.g.script["tasks"].get(idx as usize).cloned() else { continue };
                let with_ep = spec.get("with_ep").and_then(|x| x.as_bool()).unwrap_or(false);
                let child = Task {
                    g: t.g.clone(),
                    id: 0,
                    e: t.e,
                    ep: if with_ep { t.ep.clone() } else { None },
                    c: t.c,
                    side: t.side,
                    conn: t.conn.clone(),
                    send: None,
                    recv: None,
                };
                if child.conn.is_some() {
                    t.hc_add(t.c, t.side, 1);
                }
                if child.ep.is_some() {
                    t.ec_add(t.e, 1);
                }
                let ops: Vec<Value> = spec["ops"].as_array().cloned().unwrap_or_default();
                let fut: BoxFut = boxed_task(child, ops);
                let id = t.g.sh.spawn("app", fut);
                t.g.sh.logv(json!({"ev":"AppSpawn","task":id,"script_task":idx,"by":t.id,"c":t.c,"side":t.side,"e":t.e,
                                   "has_conn": t.conn.is_some(), "has_ep": with_ep && t.ep.is_some()}));
            }
            // ---------------------------------------------------------------- streams
            "open_uni" | "open_bi" | "accept_uni" | "accept_bi" => {
                let Some(conn) = t.conn.clone() else { continue };
                t.hc_add(t.c, t.side, 1);
                t.drop_recv();
                t.drop_send();
                let (mut s, mut r): (Option<SendStream>, Option<RecvStream>) = (None, None);
                let mut err: Option<ConnectionError> = None;
                let mut gone = false;
                match name {
                    "open_uni" => match await_op!(t, op, name, json!({}), conn.open_uni()) {
                        Some(Ok(x)) => s = Some(x),
                        Some(Err(e)) => err = Some(e),
                        None => gone = true,
                    },
                    "accept_uni" => match await_op!(t, op, name, json!({}), conn.accept_uni()) {
                        Some(Ok(x)) => r = Some(x),
                        Some(Err(e)) => err = Some(e),
                        None => gone = true,
                    },
                    "open_bi" => match await_op!(t, op, name, json!({}), conn.open_bi()) {
                        Some(Ok((a, b))) => {
                            s = Some(a);
                            r = Some(b);
                        }
                        Some(Err(e)) => err = Some(e),
                        None => gone = true,
                    },
                    _ => match await_op!(t, op, name, json!({}), conn.accept_bi()) {
                        Some(Ok((a, b))) => {
                            s = Some(a);
                            r = Some(b);
                        }
                        Some(Err(e)) => err = Some(e),
                        None => gone = true,
                    },
                }
                if let Some(e) = err {
                    t.done(name, conn_err(&e));
                } else if !gone {
                    let sid = s.as_ref().map(|x| u64::from(x.id())).or(r.as_ref().map(|x| u64::from(x.id()))).unwrap() as i64;
                    // was the stream opened before the handshake completed (0-RTT)?  Connection::authenticated()
                    // is ready at once iff the handshake is over; the probe future is dropped right away
                    let early = if name.starts_with("open") && t.side == 1 && t.g.cfg.ticket {
                        let over = std::future::poll_fn(|cx| {
                            let mut f = std::pin::pin!(conn.authenticated());
                            Poll::Ready(f.as_mut().poll(cx).is_ready())
                        })
                        .await;
                        !over
                    } else {
                        false
                    };
                    if let Some(x) = s {
                        t.hc_add(t.c, t.side, 1);
                        t.send = Some(SendH { s: x, sid, woff: 0, dirty: false });
                    }
                    if let Some(x) = r {
                        t.hc_add(t.c, t.side, 1);
                        t.recv = Some(RecvH { r: x, sid, roff: 0, dirty: false });
                    }
                    t.done(name, json!({"res":"ok","sid":sid,"n": early as i64}));
                }
                drop(conn);
                t.hc_add(t.c, t.side, -1);
            }
            "write" | "write_all" | "write_chunks" => {
                let Some(mut h) = t.send.take() else { continue };
                if h.dirty {
                    t.send = Some(h);
                    continue;
                }
                let n = geti(op, "n", 100).max(1) as usize;
                let data = pattern(t.c, h.sid, t.side, h.woff, n);
                let sx = json!({"sid":h.sid,"off":h.woff,"n":n});
                match name {
                    "write" => match await_op!(t, op, name, sx.clone(), h.s.write(&data)) {
                        Some(Ok(k)) => {
                            t.done(name, json!({"res":"ok","sid":h.sid,"off":h.woff,"n":k}));
                            h.woff += k as u64;
                        }
                        Some(Err(e)) => t.done(name, with(write_err(&e), json!({"sid":h.sid,"off":h.woff}))),
                        None => {}
                    },
                    // not cancel-safe: a dropped write_all / read_to_end is never retried
                    "write_all" => match await_op!(t, &no_retry(op), name, sx.clone(), h.s.write_all(&data)) {
                        Some(Ok(())) => {
                            t.done(name, json!({"res":"ok","sid":h.sid,"off":h.woff,"n":n}));
                            h.woff += n as u64;
                        }
                        Some(Err(e)) => {
                            // some prefix may have been written
                            h.dirty = true;
                            t.done(name, with(write_err(&e), json!({"sid":h.sid,"off":h.woff,"n":n})))
                        }
                        None => h.dirty = true,
                    },
                    _ => {
                        let pieces = geti(op, "pieces", 2).max(1) as usize;
                        let per = (n + pieces - 1) / pieces;
                        let r = {
                            let d = &data;
                            await_op!(t, op, name, sx.clone(), async {
                                let mut bufs: Vec<Bytes> = d.chunks(per.max(1)).map(Bytes::copy_from_slice).collect();
                                h.s.write_chunks(&mut bufs).await
                            })
                        };
                        match r {
                            Some(Ok(w)) => {
                                t.done(name, json!({"res":"ok","sid":h.sid,"off":h.woff,"n":w.bytes}));
                                h.woff += w.bytes as u64;
                            }
                            Some(Err(e)) => t.done(name, with(write_err(&e), json!({"sid":h.sid,"off":h.woff}))),
                            None => {}
                        }
                    }
                }
                t.send = Some(h);
            }
            "finish" => {
                if let Some(h) = t.send.as_mut() {
                    let r = h.s.finish();
                    let (sid, off) = (h.sid, h.woff);
                    t.sync("finish", json!({"sid":sid,"off":off,"res": if r.is_ok() {"ok"} else {"err"}}));
                }
            }
            "reset" => {
                if let Some(h) = t.send.as_mut() {
                    let code = geti(op, "code", 1);
                    let r = h.s.reset(VarInt::from_u32(code as u32));
                    let sid = h.sid;
                    t.sync("reset", json!({"sid":sid,"n":code,"res": if r.is_ok() {"ok"} else {"err"}}));
                }
            }
            "stopped" => {
                let Some(h) = t.send.take() else { continue };
                let r = await_op!(t, op, name, json!({"sid":h.sid}), h.s.stopped());
                match r {
                    Some(Ok(None)) => t.done(name, json!({"res":"none","sid":h.sid})),
                    Some(Ok(Some(code))) => t.done(name, json!({"res":"ok","sid":h.sid,"n":code.into_inner()})),
                    Some(Err(StoppedError::ConnectionLost(e))) => t.done(name, with(conn_err(&e), json!({"sid":h.sid}))),
                    Some(Err(StoppedError::ZeroRttRejected)) => t.done(name, with(plain_err("ZeroRttRejected", 0), json!({"sid":h.sid}))),
                    None => {}
                }
                t.send = Some(h);
            }
            "read" | "read_chunk" | "read_chunks" | "read_to_end" | "read_all" => {
                let Some(mut h) = t.recv.take() else { continue };
                if h.dirty {
                    t.recv = Some(h);
                    continue;
                }
                let max = geti(op, "n", 1000).max(1) as usize;
                let kind = if name == "read_all" { op.get("kind").and_then(|x| x.as_str()).unwrap_or("read") } else { name };
                let mut rounds = if name == "read_all" { geti(op, "max_rounds", 10_000) } else { 1 };
                while rounds > 0 {
                    rounds -= 1;
                    let sx = json!({"sid":h.sid,"off":h.roff,"n":max});
                    // res: Some(Ok(Some(chunks))) data, Some(Ok(None)) fin, Some(Err(text)) error, None dropped
                    let res: Option<Result<Option<Vec<(u64, Vec<u8>)>>, Value>> = match kind {
                        "read" => {
                            let mut buf = vec![0u8; max];
                            let r = await_op!(t, op, kind, sx.clone(), h.r.read(&mut buf));
                            r.map(|r| match r {
                                Ok(Some(n)) => Ok(Some(vec![(h.roff, buf[..n].to_vec())])),
                                Ok(None) => Ok(None),
                                Err(e) => Err(read_err(&e)),
                            })
                        }
                        "read_chunk" => {
                            let r = await_op!(t, op, kind, sx.clone(), h.r.read_chunk(max, true));
                            r.map(|r| match r {
                                Ok(Some(c)) => Ok(Some(vec![(c.offset, c.bytes.to_vec())])),
                                Ok(None) => Ok(None),
                                Err(e) => Err(read_err(&e)),
                            })
                        }
                        "read_chunks" => {
                            let k = geti(op, "k", 3).max(1) as usize;
                            let mut bufs = vec![Bytes::new(); k];
                            let r = await_op!(t, op, kind, sx.clone(), h.r.read_chunks(&mut bufs));
                            r.map(|r| match r {
                                Ok(Some(n)) => {
                                    let mut o = h.roff;
                                    let mut v = Vec::new();
                                    for b in bufs.iter().take(n) {
                                        v.push((o, b.to_vec()));
                                        o += b.len() as u64;
                                    }
                                    Ok(Some(v))
                                }
                                Ok(None) => Ok(None),
                                Err(e) => Err(read_err(&e)),
                            })
                        }
                        _ => {
                            let r = await_op!(t, &no_retry(op), "read_to_end", sx.clone(), h.r.read_to_end(max));
                            match r {
                                None => {
                                    h.dirty = true;
                                    None
                                }
                                Some(Ok(v)) => {
                                    // data and end of stream in one result
                                    let (f, nr) = runs(&v);
                                    let ch = if v.is_empty() { json!([]) } else { json!([[h.roff, v.len(), f, nr]]) };
                                    t.done("read_to_end", json!({"res":"ok","sid":h.sid,"off":h.roff,"n":v.len(),"chunks":ch}));
                                    h.roff += v.len() as u64;
                                    rounds = 0;
                                    continue;
                                }
                                Some(Err(quinn::ReadToEndError::TooLong)) => {
                                    h.dirty = true;
                                    Some(Err(plain_err("TooLong", 0)))
                                }
                                Some(Err(quinn::ReadToEndError::Read(e))) => {
                                    h.dirty = true;
                                    Some(Err(read_err(&e)))
                                }
                            }
                        }
                    };
                    let kname = if kind == "read" || kind == "read_chunk" || kind == "read_chunks" { kind } else { "read_to_end" };
                    match res {
                        None => break,
                        Some(Ok(Some(chunks))) => {
                            let mut total = 0u64;
                            let mut cj = Vec::new();
                            for (o, b) in chunks.iter() {
                                let (f, nr) = runs(b);
                                cj.push(json!([o, b.len(), f, nr]));
                                total += b.len() as u64;
                            }
                            t.done(kname, json!({"res":"ok","sid":h.sid,"off":h.roff,"n":total,"chunks":cj}));
                            h.roff += total;
                        }
                        Some(Ok(None)) => {
                            t.done(kname, json!({"res":"fin","sid":h.sid,"off":h.roff}));
                            break;
                        }
                        Some(Err(e)) => {
                            t.done(kname, with(e, json!({"sid":h.sid,"off":h.roff})));
                            break;
                        }
                    }
                }
                t.recv = Some(h);
            }
            "stop" => {
                if let Some(h) = t.recv.as_mut() {
                    let code = geti(op, "code", 2);
                    let r = h.r.stop(VarInt::from_u32(code as u32));
                    let sid = h.sid;
                    t.sync("stop", json!({"sid":sid,"n":code,"res": if r.is_ok() {"ok"} else {"err"}}));
                }
            }
            // ---------------------------------------------------------------- datagrams
            "send_dgram" | "send_dgram_wait" => {
                let Some(conn) = t.conn.clone() else { continue };
                t.hc_add(t.c, t.side, 1);
                let n = geti(op, "n", 50).max(4) as usize;
                let tag = {
                    let mut m = t.g.dgram_tag.lock().unwrap();
                    let x = m.entry((t.c, t.side)).or_insert(0);
                    *x += 1;
                    *x
                };
                let mut data = (tag as u32).to_be_bytes().to_vec();
                data.extend(pattern(t.c, 1000 + tag, t.side, 0, n - 4));
                if name == "send_dgram" {
                    let r = conn.send_datagram(Bytes::from(data));
                    t.sync("send_dgram", json!({"n":tag,"off":n,"res": if r.is_ok() {"ok".to_string()} else {format!("{:?}", r.unwrap_err()).chars().take(24).collect()}}));
                } else {
                    let mut d = Some(Bytes::from(data));
                    let r = await_op!(t, op, name, json!({"n":tag,"off":n}), conn.send_datagram_wait(d.take().expect("not retried")));
                    match r {
                        Some(Ok(())) => t.done(name, json!({"res":"ok","n":tag,"off":n})),
                        Some(Err(e)) => t.done(name, with(plain_err(&format!("{:?}", e).chars().take(24).collect::<String>(), 0), json!({"n":tag}))),
                        None => {}
                    }
                }
                drop(conn);
                t.hc_add(t.c, t.side, -1);
            }
            "read_dgram" => {
                let Some(conn) = t.conn.clone() else { continue };
                t.hc_add(t.c, t.side, 1);
                let r = await_op!(t, op, name, json!({}), conn.read_datagram());
                match r {
                    Some(Ok(b)) => {
                        let tag = if b.len() >= 4 { u32::from_be_bytes([b[0], b[1], b[2], b[3]]) as i64 } else { -1 };
                        let (f, nr) = runs(&b[4.min(b.len())..]);
                        t.done(name, json!({"res":"ok","n":tag,"off":b.len(),"chunks":[[0, b.len().saturating_sub(4), f, nr]]}));
                    }
                    Some(Err(e)) => t.done(name, conn_err(&e)),
                    None => {}
                }
                drop(conn);
                t.hc_add(t.c, t.side, -1);
            }
            // ---------------------------------------------------------------- close / teardown
            "close" => {
                if let Some(conn) = t.conn.as_ref() {
                    let code = geti(op, "code", 0);
                    conn.close(VarInt::from_u32(code as u32), b"bye");
                    t.sync("close", json!({"n":code}));
                }
            }
            "closed" => {
                let Some(conn) = t.conn.clone() else { continue };
                t.hc_add(t.c, t.side, 1);
                let r = await_op!(t, op, name, json!({}), conn.closed());
                if let Some(e) = r {
                    t.done(name, conn_err(&e));
                }
                drop(conn);
                t.hc_add(t.c, t.side, -1);
            }
            "ep_close" => {
                if let Some(ep) = t.ep.as_ref() {
                    let code = geti(op, "code", 0);
                    ep.close(VarInt::from_u32(code as u32), b"ep");
                    t.sync("ep_close", json!({"n":code}));
                }
            }
            "wait_idle" => {
                let Some(ep) = t.ep.clone() else { continue };
                t.ec_add(t.e, 1);
                let r = await_op!(t, op, name, json!({}), ep.wait_idle());
                if r.is_some() {
                    t.done(name, json!({"res":"ok"}));
                }
                drop(ep);
                t.ec_add(t.e, -1);
            }
            "stats" => {
                if let Some(conn) = t.conn.as_ref() {
                    let st = conn.stats();
                    t.sync("stats", json!({"n": st.frame_rx.datagram.min(1_000_000), "off": st.frame_tx.datagram.min(1_000_000)}));
                }
            }
            "open_conns" => {
                if let Some(ep) = t.ep.as_ref() {
                    let n = ep.open_connections();
                    t.sync("open_conns", json!({"n":n}));
                }
            }
            "sleep" => {
                let us = geti(op, "us", 1000).max(0) as u64;
                let now = t.g.sh.now_us();
                SimTimer::new(t.g.sh.clone(), now + us).await;
            }
            "yield" => YieldNow(false).await,
            "drop_send" => t.drop_send(),
            "drop_recv" => t.drop_recv(),
            "drop_conn" => t.drop_conn(),
            "drop_ep" => t.drop_ep(),
            _ => {}
        }
    }
    // end of script: release every handle in a fixed order
    t.drop_recv();
    t.drop_send();
    t.drop_conn();
    t.drop_ep();
}

// ------------------------------------------------------------------------------------------------
// one run

type Tap = Arc<Mutex<Vec<Vec<u8>>>>;

pub fn run_script(script: &Value, run: i64, verbose: bool) -> String {
    let cfg: Cfg = script.get("cfg").cloned().map(|c| serde_json::from_value(c).unwrap_or_default()).unwrap_or_default();
    let mut ticket = None;
    if cfg.ticket {
        // the "earlier connection" of the session ticket: a scratch handshake on a clean network with the same
        // transport configuration; the server's encoded transport parameters are what the ticket remembers
        let mut c2 = script.get("cfg").cloned().unwrap_or(json!({}));
        c2["ticket"] = json!(false);
        c2["clients"] = json!(1);
        c2["net"] = json!({});
        c2["sched"] = json!({"mode":"fifo"});
        c2["sup_hold"] = json!(false);
        let mini = json!({"seed": script.get("seed").cloned().unwrap_or(json!(1)), "cfg": c2, "tasks": [
            {"ep":0,"root":true,"ops":[{"op":"accept_conn"}]},
            {"ep":1,"root":true,"ops":[{"op":"connect"}]}]});
        let tap: Tap = Arc::new(Mutex::new(Vec::new()));
        let _ = run_inner(&mini, -1, false, Some(tap.clone()), None);
        ticket = tap.lock().unwrap().last().cloned();
    }
    run_inner(script, run, verbose, None, ticket)
}

fn run_inner(script: &Value, run: i64, verbose: bool, tap: Option<Tap>, ticket_params: Option<Vec<u8>>) -> String {
    let cfg: Cfg = script.get("cfg").cloned().map(|c| serde_json::from_value(c).unwrap_or_default()).unwrap_or_default();
    let seed = script.get("seed").and_then(|x| x.as_u64()).unwrap_or(1);
    let sh = Sh::new(seed, cfg.net.clone(), verbose);
    sh.logv(json!({"ev":"Reset","run":run,"lossless":cfg.net.loss_pm == 0,"ordered":cfg.net.jitter_us == 0,"dup":cfg.net.dup_pm > 0,
                   "idle":cfg.idle_ms > 0,"maxuni":cfg.max_uni,"maxbi":cfg.max_bi,"window":cfg.stream_window,"sendwin":cfg.send_window.min(1_000_000_000),
                   "clients":cfg.clients,"ticket":ticket_params.is_some(),"eaccept":cfg.early_accept}));

    let tcfg = Arc::new(transport(&cfg));
    let mut scrypto = ToyServerConfig::new(seed);
    scrypto.accept_early = cfg.early_accept;
    if let Some(tap) = tap.clone() {
        scrypto.param_hook = Some(Arc::new(move |b: Vec<u8>| {
            tap.lock().unwrap().push(b.clone());
            b
        }));
    }
    let mut scfg = ServerConfig::new(Arc::new(scrypto), Arc::new(ToyTokenKey(0x70ce)));
    scfg.transport_config(tcfg.clone());
    scfg.time_source(Arc::new(SimClock(sh.clone())));
    let mut client_cfg = Vec::new();
    for i in 0..cfg.clients {
        let mut ccrypto = ToyClientConfig::new(seed ^ ((i as u64 + 1) << 32));
        if let Some(p) = ticket_params.as_ref() {
            ccrypto.ticket = Some(qv_core::toycrypto::Ticket { id: qv_core::toycrypto::mix(seed ^ 0x71c4e7 ^ i as u64), params: p.clone() });
        }
        let mut c = ClientConfig::new(Arc::new(ccrypto));
        c.transport_config(tcfg.clone());
        client_cfg.push(c);
    }

    let mut eps: Vec<Endpoint> = Vec::new();
    {
        let rt = SimRuntime::new(sh.clone());
        let sock = SimSocket::bind(sh.clone(), server_addr());
        eps.push(Endpoint::new_with_abstract_socket(ep_config(seed, 0), Some(scfg), sock, rt).expect("endpoint"));
    }
    for i in 0..cfg.clients {
        let rt = SimRuntime::new(sh.clone());
        let sock = SimSocket::bind(sh.clone(), client_addr(i));
        eps.push(Endpoint::new_with_abstract_socket(ep_config(seed, 1 + i as u8), None, sock, rt).expect("endpoint"));
    }

    let g = Arc::new(Shared {
        sh: sh.clone(),
        script: script.clone(),
        cfg: cfg.clone(),
        hc: Mutex::new(BTreeMap::new()),
        ec: Mutex::new(BTreeMap::new()),
        dgram_tag: Mutex::new(BTreeMap::new()),
        client_cfg,
    });

    // supervisor handles
    let mut sup: Vec<Option<Endpoint>> = Vec::new();
    for (i, e) in eps.iter().enumerate() {
        if cfg.sup_hold {
            sup.push(Some(e.clone()));
            *g.ec.lock().unwrap().entry(i as i64).or_insert(0) += 1;
        } else {
            sup.push(None);
        }
    }
    // root tasks
    let tasks = script["tasks"].as_array().cloned().unwrap_or_default();
    let mut eps: Vec<Option<Endpoint>> = eps.into_iter().map(Some).collect();
    for (idx, spec) in tasks.iter().enumerate() {
        if !spec.get("root").and_then(|x| x.as_bool()).unwrap_or(false) {
            continue;
        }
        let e = geti(spec, "ep", 0);
        let ep = eps.get_mut(e as usize).and_then(|x| x.take());
        if ep.is_some() {
            *g.ec.lock().unwrap().entry(e).or_insert(0) += 1;
        }
        let has_ep = ep.is_some();
        let t = Task { g: g.clone(), id: 0, e, ep, c: -1, side: if e == 0 { 0 } else { 1 }, conn: None, send: None, recv: None };
        let ops: Vec<Value> = spec["ops"].as_array().cloned().unwrap_or_default();
        let id = sh.spawn("app", Box::pin(run_task(t, ops)));
        sh.logv(json!({"ev":"AppSpawn","task":id,"script_task":idx,"by":-3,"c":-1,"side":if e == 0 {0} else {1},"e":e,
                       "has_conn":false,"has_ep":has_ep}));
    }
    // endpoints without a root task lose their application handle right away
    for (i, e) in eps.iter_mut().enumerate() {
        if let Some(ep) = e.take() {
            drop(ep);
            sh.logv(json!({"ev":"HandleDropped","task":-3,"kind":"ep","c":-1,"side":-1,"e":i,"sid":-1,
                           "left": g.ec.lock().unwrap().get(&(i as i64)).copied().unwrap_or(0)}));
        }
    }

    let mut ex = Exec::new(sh.clone(), seed, cfg.sched.clone(), cfg.max_polls, cfg.max_time_ms * 1000);
    let mut capped = "";
    let mut panicked = false;
    // phase 1: until nothing can happen any more
    match ex.run() {
        Stop::Terminal => {}
        Stop::Capped(why) => capped = why,
        Stop::Panicked => panicked = true,
    }
    let mut open_conns: i64 = -1;
    if !panicked {
        // phase 2: drop every application task that is still alive (with all its futures and handles)
        let victims = ex.abort_kind("app");
        g.hc.lock().unwrap().clear();
        sh.logv(json!({"ev":"AbortAll","tasks":victims,"capped":!capped.is_empty()}));
        match ex.run() {
            Stop::Terminal => {}
            Stop::Capped(why) => capped = why,
            Stop::Panicked => panicked = true,
        }
    }
    if !panicked && cfg.sup_hold && capped.is_empty() {
        // phase 3: read the endpoints' bookkeeping, then release the supervisor handles
        let mut total = 0;
        for (i, s) in sup.iter().enumerate() {
            if let Some(ep) = s {
                let n = ep.open_connections() as i64;
                total += n;
                sh.logv(json!({"ev":"Sync","task":-3,"op":"open_conns","c":-1,"side":-1,"e":i,"sid":-1,"n":n,"off":0,
                               "res":"","err":"","ecode":0,"lost":false,"chunks":[]}));
            }
        }
        open_conns = total;
        for (i, s) in sup.iter_mut().enumerate() {
            if let Some(ep) = s.take() {
                drop(ep);
                sh.logv(json!({"ev":"HandleDropped","task":-3,"kind":"ep","c":-1,"side":-1,"e":i,"sid":-1,"left":0}));
            }
        }
        match ex.run() {
            Stop::Terminal => {}
            Stop::Capped(why) => capped = why,
            Stop::Panicked => panicked = true,
        }
    }
    if panicked {
        let log = std::mem::take(&mut sh.core.lock().unwrap_or_else(|e| e.into_inner()).log);
        ex.leak();
        std::mem::forget(sup);
        std::mem::forget(g);
        return log;
    }
    let live = ex.live_tasks();
    let (timers, net) = (0, 0);
    let _ = (timers, net);
    sh.logv(json!({"ev":"End","live_tasks":live.len(),"live_kinds":live.iter().map(|x| x.1).collect::<Vec<_>>(),
                   "live_clones":ex.live_clones(),"open_conns":open_conns,"capped":capped,"polls":ex.polls.min(2_000_000_000),
                   "now_ms": sh.now_us() / 1000}));
    let log = std::mem::take(&mut sh.core.lock().unwrap().log);
    // whatever is still alive (only after a capped run or a teardown defect) is leaked, not dropped
    if !live.is_empty() {
        ex.leak();
    }
    log
}
