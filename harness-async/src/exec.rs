//! Deterministic single-threaded executor + virtual clock + in-memory UDP network implementing
//! quinn's public `Runtime` / `AsyncTimer` / `AsyncUdpSocket` / `UdpSender` traits.
//!
//! Everything observable is appended to an NDJSON log (one run = one `Reset` ... `End` block).
//! The executor never judges; it records polls, wakes, waker clone/drop, quiescent points.
//!
//! Locking discipline: `Sh::core` (ready list, waker counts, log) is the only lock the waker
//! vtable takes; `Sh::io` (timers, sockets, network) may be held while nothing else is called.
//! No `Waker` is ever cloned, woken or dropped while `io` or `core` is held.

use std::{
    collections::{BTreeMap, HashMap, VecDeque},
    fmt,
    future::Future,
    io::{self, IoSliceMut},
    mem::ManuallyDrop,
    net::SocketAddr,
    panic::{catch_unwind, AssertUnwindSafe},
    pin::Pin,
    sync::{Arc, Mutex},
    task::{Context, Poll, RawWaker, RawWakerVTable, Waker},
    time::{Duration, Instant},
};

use quinn::{udp, AsyncTimer, AsyncUdpSocket, Runtime, UdpSender};

pub type BoxFut = Pin<Box<dyn Future<Output = ()> + Send>>;

/// pseudo task ids used in `Wake.by` / `current`
pub const BY_TIMER: i64 = -1;
pub const BY_NET: i64 = -2;
pub const BY_HARNESS: i64 = -3;

// ------------------------------------------------------------------------------------------------
// rng (splitmix64) — all randomness of a run derives from the script's seed

#[derive(Clone)]
pub struct Rng(pub u64);
impl Rng {
    pub fn next(&mut self) -> u64 {
        self.0 = self.0.wrapping_add(0x9e37_79b9_7f4a_7c15);
        let mut z = self.0;
        z = (z ^ (z >> 30)).wrapping_mul(0xbf58_476d_1ce4_e5b9);
        z = (z ^ (z >> 27)).wrapping_mul(0x94d0_49bb_1331_11eb);
        z ^ (z >> 31)
    }
    pub fn below(&mut self, n: u64) -> u64 {
        if n == 0 {
            0
        } else {
            self.next() % n
        }
    }
    /// true with probability `permille`/1000
    pub fn chance(&mut self, permille: u32) -> bool {
        permille > 0 && self.below(1000) < permille as u64
    }
}

// ------------------------------------------------------------------------------------------------
// shared state

pub struct Core {
    pub now_us: u64,
    /// ready tasks in wake order (no duplicates)
    pub ready: Vec<usize>,
    pub clones: Vec<i64>,
    pub finished: Vec<bool>,
    pub kinds: Vec<&'static str>,
    pub current: i64,
    pub log: String,
    pub spawn_q: Vec<(usize, BoxFut)>,
    pub verbose: bool,
    /// current pending app op per task (informational part of Quiescent)
    pub cur_op: BTreeMap<usize, String>,
}

pub struct TimerEnt {
    deadline_us: u64,
    waker: Option<Waker>,
}

pub struct Dgram {
    pub src: SocketAddr,
    pub dst: SocketAddr,
    pub ecn: Option<udp::EcnCodepoint>,
    pub data: Vec<u8>,
}

pub struct Sock {
    inbox: VecDeque<Dgram>,
    waker: Option<Waker>,
}

#[derive(Clone, Debug, serde::Deserialize)]
#[serde(default)]
pub struct NetCfg {
    pub delay_us: u64,
    pub jitter_us: u64,
    pub loss_pm: u32,
    pub dup_pm: u32,
    /// probability that poll_send returns Pending (socket buffer full) and wakes later
    pub block_pm: u32,
    pub block_us: u64,
    pub gso: usize,
    pub gro: usize,
}
impl Default for NetCfg {
    fn default() -> Self {
        Self { delay_us: 200, jitter_us: 0, loss_pm: 0, dup_pm: 0, block_pm: 0, block_us: 50, gso: 1, gro: 1 }
    }
}

pub struct Io {
    timers: HashMap<u64, TimerEnt>,
    next_timer: u64,
    /// in flight: (due_us, seq) -> datagram
    net: BTreeMap<(u64, u64), Dgram>,
    /// blocked senders: (due_us, seq) -> waker
    unblock: BTreeMap<(u64, u64), Waker>,
    next_seq: u64,
    socks: HashMap<SocketAddr, Sock>,
    rng: Rng,
    cfg: NetCfg,
    pub sent: u64,
    pub delivered: u64,
    dbg_ctx: HashMap<SocketAddr, qv_core::wire::TxCtx>,
}

pub struct Sh {
    pub core: Mutex<Core>,
    pub io: Mutex<Io>,
    pub epoch: Instant,
}

impl fmt::Debug for Sh {
    fn fmt(&self, f: &mut fmt::Formatter<'_>) -> fmt::Result {
        f.write_str("Sh")
    }
}

impl Sh {
    pub fn new(seed: u64, net: NetCfg, verbose: bool) -> Arc<Self> {
        Arc::new(Self {
            core: Mutex::new(Core {
                now_us: 0,
                ready: Vec::new(),
                clones: Vec::new(),
                finished: Vec::new(),
                kinds: Vec::new(),
                current: BY_HARNESS,
                log: String::new(),
                spawn_q: Vec::new(),
                verbose,
                cur_op: BTreeMap::new(),
            }),
            io: Mutex::new(Io {
                timers: HashMap::new(),
                next_timer: 0,
                net: BTreeMap::new(),
                unblock: BTreeMap::new(),
                next_seq: 0,
                socks: HashMap::new(),
                rng: Rng(seed ^ 0x6e65_7477_6f72_6b),
                cfg: net,
                sent: 0,
                delivered: 0,
                dbg_ctx: HashMap::new(),
            }),
            epoch: Instant::now(),
        })
    }

    pub fn log(&self, line: &str) {
        let mut c = self.core.lock().unwrap();
        c.log.push_str(line);
        c.log.push('\n');
    }

    pub fn logv(&self, v: serde_json::Value) {
        self.log(&v.to_string());
    }

    pub fn now_us(&self) -> u64 {
        self.core.lock().unwrap().now_us
    }

    pub fn current(&self) -> i64 {
        self.core.lock().unwrap().current
    }

    pub fn instant(&self, us: u64) -> Instant {
        self.epoch + Duration::from_micros(us)
    }

    fn to_us(&self, i: Instant) -> u64 {
        let d = i.saturating_duration_since(self.epoch);
        ((d.as_nanos() + 999) / 1000) as u64
    }

    /// allocate a task id and queue the future for adoption by the executor
    pub fn spawn(&self, kind: &'static str, fut: BoxFut) -> usize {
        let mut c = self.core.lock().unwrap();
        let id = c.clones.len();
        c.clones.push(0);
        c.finished.push(false);
        c.kinds.push(kind);
        let by = c.current;
        c.log.push_str(&format!("{{\"ev\":\"Spawn\",\"task\":{},\"kind\":\"{}\",\"by\":{}}}\n", id, kind, by));
        c.spawn_q.push((id, fut));
        // a fresh task is runnable
        c.ready.push(id);
        id
    }

    pub fn set_cur_op(&self, task: usize, op: Option<&str>) {
        let mut c = self.core.lock().unwrap();
        match op {
            Some(o) => {
                c.cur_op.insert(task, o.to_string());
            }
            None => {
                c.cur_op.remove(&task);
            }
        }
    }
}

// ------------------------------------------------------------------------------------------------
// waker: one Arc<WData> per task, one vtable; every clone is counted and logged

pub struct WData {
    task: usize,
    sh: Arc<Sh>,
}

fn w_wake_inner(d: &WData) {
    let mut c = d.sh.core.lock().unwrap();
    let by = c.current;
    c.log.push_str(&format!("{{\"ev\":\"Wake\",\"task\":{},\"by\":{}}}\n", d.task, by));
    if !c.finished[d.task] && !c.ready.contains(&d.task) {
        c.ready.push(d.task);
    }
}

fn w_count(d: &WData, delta: i64) {
    let mut c = d.sh.core.lock().unwrap();
    c.clones[d.task] += delta;
    let name = if delta > 0 { "WakerClone" } else { "WakerDrop" };
    c.log.push_str(&format!("{{\"ev\":\"{}\",\"task\":{}}}\n", name, d.task));
}

unsafe fn w_clone(p: *const ()) -> RawWaker {
    let d = &*(p as *const WData);
    Arc::increment_strong_count(p as *const WData);
    w_count(d, 1);
    RawWaker::new(p, &VTABLE)
}
unsafe fn w_wake(p: *const ()) {
    let d = &*(p as *const WData);
    w_wake_inner(d);
    w_count(d, -1);
    Arc::decrement_strong_count(p as *const WData);
}
unsafe fn w_wake_by_ref(p: *const ()) {
    let d = &*(p as *const WData);
    w_wake_inner(d);
}
unsafe fn w_drop(p: *const ()) {
    let d = &*(p as *const WData);
    w_count(d, -1);
    Arc::decrement_strong_count(p as *const WData);
}
static VTABLE: RawWakerVTable = RawWakerVTable::new(w_clone, w_wake, w_wake_by_ref, w_drop);

/// the executor's own (uncounted) waker of a task; never dropped through the vtable
fn base_waker(d: &Arc<WData>) -> ManuallyDrop<Waker> {
    let p = Arc::into_raw(d.clone()) as *const ();
    ManuallyDrop::new(unsafe { Waker::from_raw(RawWaker::new(p, &VTABLE)) })
}

// ------------------------------------------------------------------------------------------------
// Runtime

#[derive(Debug)]
pub struct SimRuntime {
    pub sh: Arc<Sh>,
    first: Mutex<bool>,
}

impl SimRuntime {
    pub fn new(sh: Arc<Sh>) -> Arc<Self> {
        Arc::new(Self { sh, first: Mutex::new(true) })
    }
}

impl Runtime for SimRuntime {
    fn new_timer(&self, i: Instant) -> Pin<Box<dyn AsyncTimer>> {
        Box::pin(SimTimer::new(self.sh.clone(), self.sh.to_us(i)))
    }
    fn spawn(&self, future: BoxFut) {
        // the first future spawned through an endpoint's runtime is its EndpointDriver
        let kind = {
            let mut f = self.first.lock().unwrap();
            let k = if *f { "ep" } else { "conn" };
            *f = false;
            k
        };
        self.sh.spawn(kind, future);
    }
    fn wrap_udp_socket(&self, _t: std::net::UdpSocket) -> io::Result<Box<dyn AsyncUdpSocket>> {
        Err(io::Error::other("real sockets are not used"))
    }
    fn now(&self) -> Instant {
        self.sh.instant(self.sh.now_us())
    }
}

// ------------------------------------------------------------------------------------------------
// timers

pub struct SimTimer {
    sh: Arc<Sh>,
    id: u64,
}
impl fmt::Debug for SimTimer {
    fn fmt(&self, f: &mut fmt::Formatter<'_>) -> fmt::Result {
        write!(f, "SimTimer({})", self.id)
    }
}
impl SimTimer {
    pub fn new(sh: Arc<Sh>, deadline_us: u64) -> Self {
        let id = {
            let mut io = sh.io.lock().unwrap();
            let id = io.next_timer;
            io.next_timer += 1;
            io.timers.insert(id, TimerEnt { deadline_us, waker: None });
            id
        };
        Self { sh, id }
    }
    pub fn poll_timer(&self, cx: &mut Context<'_>) -> Poll<()> {
        let now = self.sh.now_us();
        let due = {
            let io = self.sh.io.lock().unwrap();
            io.timers[&self.id].deadline_us <= now
        };
        if due {
            let old = self.sh.io.lock().unwrap().timers.get_mut(&self.id).unwrap().waker.take();
            drop(old);
            return Poll::Ready(());
        }
        let need = {
            let io = self.sh.io.lock().unwrap();
            match &io.timers[&self.id].waker {
                Some(w) => !w.will_wake(cx.waker()),
                None => true,
            }
        };
        if need {
            let w = cx.waker().clone();
            let old = self.sh.io.lock().unwrap().timers.get_mut(&self.id).unwrap().waker.replace(w);
            drop(old);
        }
        Poll::Pending
    }
}
impl AsyncTimer for SimTimer {
    fn reset(self: Pin<&mut Self>, i: Instant) {
        let us = self.sh.to_us(i);
        self.sh.io.lock().unwrap().timers.get_mut(&self.id).unwrap().deadline_us = us;
    }
    fn poll(self: Pin<&mut Self>, cx: &mut Context<'_>) -> Poll<()> {
        self.poll_timer(cx)
    }
}
impl Future for SimTimer {
    type Output = ();
    fn poll(self: Pin<&mut Self>, cx: &mut Context<'_>) -> Poll<()> {
        self.poll_timer(cx)
    }
}
impl Drop for SimTimer {
    fn drop(&mut self) {
        let ent = self.sh.io.lock().unwrap().timers.remove(&self.id);
        drop(ent);
    }
}

// ------------------------------------------------------------------------------------------------
// sockets

pub struct SimSocket {
    sh: Arc<Sh>,
    addr: SocketAddr,
}
impl fmt::Debug for SimSocket {
    fn fmt(&self, f: &mut fmt::Formatter<'_>) -> fmt::Result {
        write!(f, "SimSocket({})", self.addr)
    }
}
impl SimSocket {
    pub fn bind(sh: Arc<Sh>, addr: SocketAddr) -> Box<Self> {
        sh.io.lock().unwrap().socks.insert(addr, Sock { inbox: VecDeque::new(), waker: None });
        Box::new(Self { sh, addr })
    }
}
impl Drop for SimSocket {
    fn drop(&mut self) {
        let s = self.sh.io.lock().unwrap().socks.remove(&self.addr);
        drop(s);
    }
}

impl AsyncUdpSocket for SimSocket {
    fn create_sender(&self) -> Pin<Box<dyn UdpSender>> {
        Box::pin(SimSender { sh: self.sh.clone(), src: self.addr, blocked: false })
    }

    fn poll_recv(
        &mut self,
        cx: &mut Context<'_>,
        bufs: &mut [IoSliceMut<'_>],
        meta: &mut [udp::RecvMeta],
    ) -> Poll<io::Result<usize>> {
        let mut n = 0;
        {
            let mut io = self.sh.io.lock().unwrap();
            let gro = io.cfg.gro.max(1);
            let sock = match io.socks.get_mut(&self.addr) {
                Some(s) => s,
                None => return Poll::Ready(Err(io::Error::other("socket closed"))),
            };
            while n < bufs.len() && n < meta.len() {
                let Some(first) = sock.inbox.pop_front() else { break };
                let stride = first.data.len();
                let mut len = 0;
                let buf = &mut bufs[n];
                buf[..stride].copy_from_slice(&first.data);
                len += stride;
                let mut segs = 1;
                // GRO-style coalescing: same source, same ecn, equal size (last may be shorter)
                while segs < gro {
                    let ok = match sock.inbox.front() {
                        Some(d) => {
                            d.src == first.src
                                && d.ecn == first.ecn
                                && d.data.len() <= stride
                                && len + d.data.len() <= buf.len()
                                && len % stride == 0
                        }
                        None => false,
                    };
                    if !ok {
                        break;
                    }
                    let d = sock.inbox.pop_front().unwrap();
                    buf[len..len + d.data.len()].copy_from_slice(&d.data);
                    len += d.data.len();
                    segs += 1;
                }
                if self.sh.core.lock().unwrap().verbose {
                    eprintln!("net recv {} len={} stride={} segs={}", self.addr, len, stride, segs);
                }
                let mut m = udp::RecvMeta::default();
                m.addr = first.src;
                m.len = len;
                m.stride = stride;
                m.ecn = first.ecn;
                m.dst_ip = Some(self.addr.ip());
                meta[n] = m;
                n += 1;
            }
        }
        if n > 0 {
            return Poll::Ready(Ok(n));
        }
        let need = {
            let io = self.sh.io.lock().unwrap();
            match io.socks.get(&self.addr).and_then(|s| s.waker.as_ref()) {
                Some(w) => !w.will_wake(cx.waker()),
                None => true,
            }
        };
        if need {
            let w = cx.waker().clone();
            let old = {
                let mut io = self.sh.io.lock().unwrap();
                io.socks.get_mut(&self.addr).and_then(|s| s.waker.replace(w))
            };
            drop(old);
        }
        Poll::Pending
    }

    fn local_addr(&self) -> io::Result<SocketAddr> {
        Ok(self.addr)
    }

    fn max_receive_segments(&self) -> usize {
        self.sh.io.lock().unwrap().cfg.gro.max(1)
    }

    fn may_fragment(&self) -> bool {
        false
    }
}

pub struct SimSender {
    sh: Arc<Sh>,
    src: SocketAddr,
    /// the previous poll_send returned Pending; the retry goes through
    blocked: bool,
}
impl fmt::Debug for SimSender {
    fn fmt(&self, f: &mut fmt::Formatter<'_>) -> fmt::Result {
        write!(f, "SimSender({})", self.src)
    }
}

impl UdpSender for SimSender {
    fn poll_send(mut self: Pin<&mut Self>, t: &udp::Transmit<'_>, cx: &mut Context<'_>) -> Poll<io::Result<()>> {
        let now = self.sh.now_us();
        // "socket buffer full": Pending now, woken a little later (never for the no-op waker used by
        // stateless responses, which quinn drops when not writable — keep those deliverable)
        if !self.blocked {
            let block = {
                let mut io = self.sh.io.lock().unwrap();
                let pm = io.cfg.block_pm;
                io.rng.chance(pm)
            };
            if block {
                if self.sh.core.lock().unwrap().verbose {
                    eprintln!("net block t={} {} len={}", now, self.src, t.contents.len());
                }
                let w = cx.waker().clone();
                let mut io = self.sh.io.lock().unwrap();
                let seq = io.next_seq;
                io.next_seq += 1;
                let due = now + io.cfg.block_us;
                io.unblock.insert((due, seq), w);
                drop(io);
                self.blocked = true;
                return Poll::Pending;
            }
        }
        self.blocked = false;
        let seg = t.segment_size.unwrap_or(t.contents.len()).max(1);
        let verbose = self.sh.core.lock().unwrap().verbose;
        let mut io = self.sh.io.lock().unwrap();
        for chunk in t.contents.chunks(seg) {
            io.sent += 1;
            if verbose {
                // debugging aid (QV_NETLOG=1): the toy crypto leaves payloads readable
                let ctx = io.dbg_ctx.entry(self.src).or_insert_with(|| qv_core::wire::TxCtx { dst_cid_len: 8, next_pn: [0; 3] });
                let frames: Vec<String> = match qv_core::wire::parse_datagram(chunk, ctx) {
                    Some(pk) => pk.iter().map(|p| format!("{:?}#{}{:?}", p.ty, p.pn, p.frames.iter().map(|f| format!("{:?}", f).chars().take(60).collect::<String>()).collect::<Vec<_>>())).collect(),
                    None => vec!["?".into()],
                };
                eprintln!("net send t={} {}->{} len={} {}", now, self.src, t.destination, chunk.len(), frames.join(" | "));
            }
            let (loss, dup) = (io.cfg.loss_pm, io.cfg.dup_pm);
            if io.rng.chance(loss) {
                continue;
            }
            let copies = if io.rng.chance(dup) { 2 } else { 1 };
            for _ in 0..copies {
                let j = io.cfg.jitter_us;
                let delay = io.cfg.delay_us + io.rng.below(j + 1);
                let seq = io.next_seq;
                io.next_seq += 1;
                io.net.insert(
                    (now + delay, seq),
                    Dgram { src: self.src, dst: t.destination, ecn: t.ecn, data: chunk.to_vec() },
                );
            }
        }
        Poll::Ready(Ok(()))
    }

    fn max_transmit_segments(&self) -> usize {
        self.sh.io.lock().unwrap().cfg.gso.max(1)
    }
}

// ------------------------------------------------------------------------------------------------
// executor

struct Slot {
    fut: Option<BoxFut>,
    wdata: Arc<WData>,
    base: ManuallyDrop<Waker>,
}

#[derive(Clone, Debug, serde::Deserialize)]
#[serde(default)]
pub struct SchedCfg {
    /// global poll index at which the enumerated prefix starts
    pub at: u64,
    /// choice indices into the ready list (wake order), applied modulo its length
    pub prefix: Vec<u32>,
    /// "uniform" | "fifo" | "lifo" | "pct"
    pub mode: String,
    /// virtual cost of one poll
    pub poll_cost_us: u64,
    /// pct: number of priority change points
    pub pct_d: u32,
}
impl Default for SchedCfg {
    fn default() -> Self {
        Self { at: 0, prefix: Vec::new(), mode: "uniform".into(), poll_cost_us: 0, pct_d: 3 }
    }
}

pub enum Stop {
    /// no ready task, no timer, nothing in flight
    Terminal,
    /// poll ("polls") or virtual-time ("time") budget exhausted
    Capped(&'static str),
    Panicked,
}

pub struct Exec {
    pub sh: Arc<Sh>,
    slots: Vec<Option<Slot>>,
    rng: Rng,
    sched: SchedCfg,
    pub polls: u64,
    pub max_polls: u64,
    pub max_time_us: u64,
    prio: Vec<u64>,
    change_points: Vec<u64>,
    same_instant: u32,
}

impl Exec {
    pub fn new(sh: Arc<Sh>, seed: u64, sched: SchedCfg, max_polls: u64, max_time_us: u64) -> Self {
        let mut rng = Rng(seed ^ 0x5eed_5c4e_d000);
        let mut change_points = Vec::new();
        if sched.mode == "pct" {
            for _ in 0..sched.pct_d {
                change_points.push(rng.below(400));
            }
        }
        Self { sh, slots: Vec::new(), rng, sched, polls: 0, max_polls, max_time_us, prio: Vec::new(), change_points, same_instant: 0 }
    }

    fn adopt(&mut self) {
        let q: Vec<(usize, BoxFut)> = std::mem::take(&mut self.sh.core.lock().unwrap().spawn_q);
        for (id, fut) in q {
            while self.slots.len() <= id {
                self.slots.push(None);
                self.prio.push(0);
            }
            let wdata = Arc::new(WData { task: id, sh: self.sh.clone() });
            let base = base_waker(&wdata);
            self.prio[id] = 1000 + self.rng.below(1_000_000);
            self.slots[id] = Some(Slot { fut: Some(fut), wdata, base });
        }
    }

    /// fire timers / deliveries / sender unblocks that are due at the current time
    fn fire_due(&mut self) {
        let now = self.sh.now_us();
        loop {
            // one event at a time so the wake is performed without holding `io`
            let mut woke: Option<(Waker, i64)> = None;
            let mut progressed = false;
            {
                let mut io = self.sh.io.lock().unwrap();
                // timers in (deadline, id) order
                let mut best: Option<(u64, u64)> = None;
                for (id, t) in io.timers.iter() {
                    if t.waker.is_some() && t.deadline_us <= now {
                        let k = (t.deadline_us, *id);
                        if best.map_or(true, |b| k < b) {
                            best = Some(k);
                        }
                    }
                }
                if let Some((_, id)) = best {
                    let w = io.timers.get_mut(&id).unwrap().waker.take().unwrap();
                    woke = Some((w, BY_TIMER));
                    progressed = true;
                } else if let Some((&k, _)) = io.unblock.iter().next().filter(|(k, _)| k.0 <= now) {
                    let w = io.unblock.remove(&k).unwrap();
                    woke = Some((w, BY_NET));
                    progressed = true;
                } else if let Some((&k, _)) = io.net.iter().next().filter(|(k, _)| k.0 <= now) {
                    let d = io.net.remove(&k).unwrap();
                    io.delivered += 1;
                    if self.sh.core.lock().unwrap().verbose {
                        eprintln!("net dlvr t={} {}->{} len={} sock={}", now, d.src, d.dst, d.data.len(), io.socks.contains_key(&d.dst));
                    }
                    progressed = true;
                    if let Some(s) = io.socks.get_mut(&d.dst) {
                        s.inbox.push_back(d);
                        if let Some(w) = s.waker.take() {
                            woke = Some((w, BY_NET));
                        }
                    }
                }
            }
            if let Some((w, by)) = woke {
                self.sh.core.lock().unwrap().current = by;
                w.wake();
                self.sh.core.lock().unwrap().current = BY_HARNESS;
            }
            if !progressed {
                break;
            }
        }
    }

    fn next_due(&self) -> Option<u64> {
        let io = self.sh.io.lock().unwrap();
        let mut best: Option<u64> = None;
        for t in io.timers.values() {
            if t.waker.is_some() {
                best = Some(best.map_or(t.deadline_us, |b: u64| b.min(t.deadline_us)));
            }
        }
        if let Some((k, _)) = io.net.iter().next() {
            best = Some(best.map_or(k.0, |b| b.min(k.0)));
        }
        if let Some((k, _)) = io.unblock.iter().next() {
            best = Some(best.map_or(k.0, |b| b.min(k.0)));
        }
        best
    }

    fn pending_counts(&self) -> (usize, usize) {
        let io = self.sh.io.lock().unwrap();
        let timers = io.timers.values().filter(|t| t.waker.is_some()).count();
        // datagrams addressed to a socket that no longer exists can never cause anything
        let net = io.net.values().filter(|d| io.socks.contains_key(&d.dst)).count() + io.unblock.len();
        (timers, net)
    }

    fn choose(&mut self, ready: &[usize]) -> usize {
        let n = ready.len();
        if self.polls >= self.sched.at && ((self.polls - self.sched.at) as usize) < self.sched.prefix.len() {
            let c = self.sched.prefix[(self.polls - self.sched.at) as usize] as usize;
            return c % n;
        }
        match self.sched.mode.as_str() {
            "fifo" => 0,
            "lifo" => n - 1,
            "pct" => {
                let mut best = 0;
                for i in 1..n {
                    if self.prio[ready[i]] > self.prio[ready[best]] {
                        best = i;
                    }
                }
                best
            }
            _ => self.rng.below(n as u64) as usize,
        }
    }

    pub fn live_tasks(&self) -> Vec<(usize, &'static str)> {
        let c = self.sh.core.lock().unwrap();
        (0..c.finished.len()).filter(|&i| !c.finished[i]).map(|i| (i, c.kinds[i])).collect()
    }

    pub fn live_clones(&self) -> i64 {
        self.sh.core.lock().unwrap().clones.iter().sum()
    }

    /// drop the future of every unfinished task of the given kind (outside any poll)
    pub fn abort_kind(&mut self, kind: &str) -> Vec<usize> {
        self.adopt();
        let victims: Vec<usize> = {
            let c = self.sh.core.lock().unwrap();
            (0..c.finished.len()).filter(|&i| !c.finished[i] && c.kinds[i] == kind).collect()
        };
        for &t in &victims {
            let fut = self.slots[t].as_mut().and_then(|s| s.fut.take());
            {
                let mut c = self.sh.core.lock().unwrap();
                c.finished[t] = true;
                c.ready.retain(|&x| x != t);
                c.cur_op.remove(&t);
            }
            drop(fut);
            self.release(t);
        }
        victims
    }

    fn release(&mut self, t: usize) {
        if let Some(s) = self.slots[t].take() {
            // free the Arc reference held by the (ManuallyDrop) base waker without going through the vtable
            unsafe { Arc::decrement_strong_count(Arc::as_ptr(&s.wdata)) };
            drop(s.wdata);
        }
    }

    /// leak everything (after a panic inside quinn, dropping would hit poisoned locks)
    pub fn leak(self) {
        std::mem::forget(self.slots);
    }

    pub fn run(&mut self) -> Stop {
        loop {
            self.adopt();
            self.fire_due();
            self.adopt();
            let ready: Vec<usize> = self.sh.core.lock().unwrap().ready.clone();
            if ready.is_empty() {
                let (timers, net) = self.pending_counts();
                {
                    let mut c = self.sh.core.lock().unwrap();
                    let pend: Vec<String> = c.cur_op.iter().map(|(t, o)| format!("[{},\"{}\"]", t, o)).collect();
                    let now = c.now_us;
                    c.log.push_str(&format!(
                        "{{\"ev\":\"Quiescent\",\"ready\":0,\"timers\":{},\"net\":{},\"now\":{},\"pending\":[{}]}}\n",
                        timers,
                        net,
                        now.min(2_000_000_000),
                        pend.join(",")
                    ));
                }
                if net == 0 && timers == 0 {
                    // nothing can ever happen again (datagrams to vanished sockets do not count)
                    return Stop::Terminal;
                }
                match self.next_due() {
                    None => return Stop::Terminal,
                    Some(t) => {
                        if t > self.max_time_us {
                            return Stop::Capped("time");
                        }
                        let mut c = self.sh.core.lock().unwrap();
                        if t > c.now_us {
                            c.now_us = t;
                            self.same_instant = 0;
                        }
                    }
                }
                continue;
            }
            if self.polls >= self.max_polls {
                return Stop::Capped("polls");
            }
            let idx = self.choose(&ready);
            let t = ready[idx];
            {
                let mut c = self.sh.core.lock().unwrap();
                c.ready.retain(|&x| x != t);
                c.current = t as i64;
            }
            if self.sched.mode == "pct" && self.change_points.contains(&self.polls) {
                self.prio[t] = self.rng.below(1000);
            }
            self.polls += 1;
            let slot = self.slots[t].as_mut().expect("ready task has a slot");
            let mut fut = slot.fut.take().expect("ready task has a future");
            let res = {
                let waker: &Waker = &slot.base;
                let mut cx = Context::from_waker(waker);
                catch_unwind(AssertUnwindSafe(|| fut.as_mut().poll(&mut cx)))
            };
            match res {
                Err(p) => {
                    let msg = if let Some(s) = p.downcast_ref::<&str>() {
                        s.to_string()
                    } else if let Some(s) = p.downcast_ref::<String>() {
                        s.clone()
                    } else {
                        "panic".to_string()
                    };
                    std::mem::forget(fut);
                    std::mem::forget(p);
                    let mut c = self.sh.core.lock().unwrap_or_else(|e| e.into_inner());
                    c.current = BY_HARNESS;
                    let line = serde_json::json!({"ev":"Panic","task":t,"msg":msg.chars().take(200).collect::<String>()});
                    c.log.push_str(&line.to_string());
                    c.log.push('\n');
                    return Stop::Panicked;
                }
                Ok(Poll::Ready(())) => {
                    {
                        let mut c = self.sh.core.lock().unwrap();
                        c.finished[t] = true;
                        c.ready.retain(|&x| x != t);
                    }
                    // dropping the completed future may drop handles and wakers: still "inside" the task
                    drop(fut);
                    {
                        let mut c = self.sh.core.lock().unwrap();
                        c.current = BY_HARNESS;
                        c.cur_op.remove(&t);
                        c.log.push_str(&format!("{{\"ev\":\"Poll\",\"task\":{},\"res\":\"ready\"}}\n", t));
                    }
                    self.release(t);
                }
                Ok(Poll::Pending) => {
                    self.slots[t].as_mut().unwrap().fut = Some(fut);
                    let mut c = self.sh.core.lock().unwrap();
                    c.current = BY_HARNESS;
                    c.log.push_str(&format!("{{\"ev\":\"Poll\",\"task\":{},\"res\":\"pending\"}}\n", t));
                }
            }
            let cost = self.sched.poll_cost_us;
            if cost > 0 {
                self.sh.core.lock().unwrap().now_us += cost;
            } else {
                // a frozen clock turns "retry until the clock has moved" (e.g. a pacing delay that rounds to
                // zero) into an endless spin: after a burst of polls at one instant, let one microsecond pass
                self.same_instant += 1;
                if self.same_instant >= 64 {
                    self.same_instant = 0;
                    self.sh.core.lock().unwrap().now_us += 1;
                }
            }
        }
    }
}
