//! qv-async: deterministic executor harness for quinn's async API (property C18).
//!
//! usage: qv-async run <scripts.ndjson> <out.ndjson> [--first-run N]
//! One script per input line; the trace of all runs is concatenated into the output file.

mod app;
mod exec;

use std::{
    fs,
    io::{BufRead, BufReader, Write},
    panic::{catch_unwind, AssertUnwindSafe},
};

fn main() {
    let args: Vec<String> = std::env::args().collect();
    if args.len() < 4 || args[1] != "run" {
        eprintln!("usage: qv-async run <scripts.ndjson> <out.ndjson> [--first-run N]");
        std::process::exit(2);
    }
    let mut first = 0i64;
    let mut i = 4;
    while i < args.len() {
        if args[i] == "--first-run" {
            first = args[i + 1].parse().unwrap_or(0);
            i += 1;
        }
        i += 1;
    }
    // panics inside quinn are data (a `Panic` trace line), not noise on stderr
    std::panic::set_hook(Box::new(|_| {}));
    let inp = BufReader::new(fs::File::open(&args[2]).expect("scripts file"));
    let mut out = std::io::BufWriter::new(fs::File::create(&args[3]).expect("output file"));
    let mut run = first;
    for line in inp.lines() {
        let line = line.expect("read");
        if line.trim().is_empty() {
            continue;
        }
        let script: serde_json::Value = serde_json::from_str(&line).expect("script json");
        let r = catch_unwind(AssertUnwindSafe(|| app::run_script(&script, run, std::env::var("QV_NETLOG").is_ok())));
        match r {
            Ok(log) => out.write_all(log.as_bytes()).unwrap(),
            Err(_) => {
                // a panic outside any task poll (e.g. in a Drop during teardown)
                let l = format!("{{\"ev\":\"Reset\",\"run\":{},\"lossless\":true,\"ordered\":true,\"dup\":false,\"idle\":false,\"maxuni\":0,\"maxbi\":0,\"window\":0,\"sendwin\":0,\"clients\":0,\"ticket\":false,\"eaccept\":false}}\n{{\"ev\":\"Panic\",\"task\":-3,\"msg\":\"panic outside poll\"}}\n", run);
                out.write_all(l.as_bytes()).unwrap();
            }
        }
        run += 1;
    }
    out.flush().unwrap();
}
