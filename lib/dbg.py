#!/usr/bin/env python3
"""dbg.py <replay.json> <proj> <TraceModule> <cfg> : run one replay, validate, print context"""
import json, os, subprocess, sys
sys.path.insert(0, os.path.dirname(os.path.abspath(__file__)))
import verif as V
data = json.load(open(sys.argv[1]))
proj, mod, cfg = sys.argv[2], sys.argv[3], sys.argv[4]
d = V.workdir("dbg")
sf = os.path.join(d, "s.ndjson")
open(sf, "w").write(json.dumps(data["script"]) + "\n")
subprocess.run([V.QV, "run", sf, d, "--proj", proj + ",master", "--probe", "2"], check=True, timeout=120)
res = V.validate(mod, cfg, os.path.join(d, proj + ".ndjson"), "dbg")
print(json.dumps({k: res[k] for k in ("ok", "lines", "violations", "known")}))
lines = open(os.path.join(d, proj + ".ndjson")).read().splitlines()
for v in res["violations"]:
    ln = v["line"]
    for i in range(max(0, ln - 6), min(len(lines), ln + 2)):
        print(("=> " if i == ln - 1 else "   ") + str(i + 1) + " " + lines[i][:400])
print("script:", json.dumps(data["script"])[:1500])
