"""C13 scenario families: datagram sizes, MTU discovery, black hole fallback.

The systematic part comes from TLC (SeqGen): per-probe fate vectors (which MTU probes the network
drops), link MTU schedules (the path MTU of three consecutive phases) and per-datagram fate vectors
for the loss-probe family; everything else is drawn from `r`.
"""

LINKS = [1200, 1201, 1250, 1300, 1325, 1326, 1327, 1388, 1389, 1390, 1419, 1420, 1421, 1451, 1452, 1453,
         1472, 1500, 9000]
PEER_UDP = [1200, 1201, 1250, 1300, 1326, 1389, 1400, 1452, 1472, 1500, 9000, 65527]


def side(r, mtud=None, small=False):
    """One side's transport configuration around the MTU knobs."""
    t = {"idle_ms": 30000}
    if r.random() < 0.6:
        t["initial_mtu"] = r.choice([1200, 1200, 1250, 1300, 1400, 1452, 1500])
    if r.random() < 0.35:
        t["min_mtu"] = r.choice([1200, 1250, 1300])
    if mtud is None:
        mtud = r.random() < 0.8
    if not mtud:
        t["mtud"] = False
    else:
        if r.random() < 0.6:
            t["mtud_upper"] = r.choice([1200, 1201, 1202, 1300, 1452, 1453, 1472, 1500, 9000])
        if r.random() < 0.5:
            t["mtud_min_change"] = r.choice([1, 2, 3, 20, 20, 50, 300])
        t["mtud_interval_ms"] = r.choice([150, 400, 1000, 600000])
        t["mtud_cooldown_ms"] = r.choice([100, 500, 60000])
    if not small:
        if r.random() < 0.2:
            t["gso"] = False
        if r.random() < 0.25:
            t["ack_freq"] = True
        if r.random() < 0.2:
            t["cc"] = r.choice(["newreno", "bbr", "cubic", "fixed:30000"])
    return t


def peer_limits(r, cfg, p=0.5):
    """Edit the max_udp_payload_size (id 3) each side announces."""
    if r.random() < p:
        cfg["server_tp"] = [[3, r.choice(PEER_UDP)]]
    if r.random() < p:
        cfg["client_tp"] = [[3, r.choice(PEER_UDP)]]


def bulk(r, n, size=None, dgrams=False):
    s = {"do": "app", "n": n, "c": 0,
         "streams": [{"dir": r.choice([0, 1]), "size": size or r.choice([3000, 20000, 60000, 150000]),
                      "chunk": r.choice([1200, 5000, 1 << 20]), "finish": True}]}
    if dgrams:
        s["dgrams"] = r.choice([1, 3, 8])
        s["dgram_size"] = r.choice([1, 100, 600, 1000, 1100])
    return s


def dgram_op(r, n):
    return {"do": "op", "n": n, "c": 0,
            "op": {"op": "send_dgram", "drop": True, "did": r.randrange(60000),
                   # every length around the largest datagram that fits (MTU 1200: 1162, MTU 1452: 1414):
                   # whether the frame still fits next to an ACK frame is decided to the byte
                   "len": r.choice([1, 500, 1100, 1200, 1290, 1350, 1452] + list(range(1140, 1168)) * 2 + list(range(1394, 1420)))}}


def pf(vec):
    return ["x" if f == "x" else "ok" for f in vec]


def search(r, idx, pvec=None):
    """MTU discovery against link MTUs around every boundary; probes lost as TLC enumerated."""
    cfg = {"seed": r.randrange(1 << 30), "link_mtu": r.choice(LINKS),
           "server": side(r, small=True), "client": side(r, mtud=True if pvec else None, small=True)}
    peer_limits(r, cfg)
    # a client flight of several Handshake packets ("client certificate"): the server acknowledges
    # Handshake packet numbers while the first 1-RTT probes, with the same numbers, are in flight
    cfg["cf_size"] = r.choice([0, 0, 2500, 4000])
    if pvec is not None:
        cfg["pfates_c2s"] = pf(pvec)
        if r.random() < 0.5:
            cfg["pfates_s2c"] = pf(pvec[::-1])
    elif r.random() < 0.4:
        cfg["pfates_c2s"] = [r.choice(["ok", "x", "x"]) for _ in range(8)]
        cfg["pfates_s2c"] = [r.choice(["ok", "x"]) for _ in range(8)]
    if r.random() < 0.2:
        cfg["loss_pct"] = r.choice([3, 10])
    cfg["max_datagrams"] = r.choice([1, 3, 10])
    steps = [{"do": "connect", "n": 1}, {"do": "run_until", "what": "connected", "max_us": 5000000}]
    if r.random() < 0.6:
        steps.append(bulk(r, r.choice([0, 1]), dgrams=r.random() < 0.3))
    for _ in range(r.choice([1, 2, 3])):
        steps.append({"do": "run", "us": r.choice([100000, 400000, 1200000, 2500000])})
        k = r.random()
        if k < 0.3:
            steps.append({"do": "set", "key": "link_mtu", "v": r.choice(LINKS)})
        elif k < 0.5:
            steps.append(bulk(r, r.choice([0, 1])))
        elif k < 0.6:
            steps.append({"do": "op", "n": r.choice([0, 1]), "c": 0, "op": {"op": "ping"}})
    steps.append({"do": "run", "us": r.choice([500000, 3000000])})
    return {"cfg": cfg, "steps": steps, "tag": {"family": "c13-search", "idx": idx, "pvec": pvec}}


def shrink(r, idx, links):
    """Bulk transfer while the path MTU follows a TLC-enumerated schedule (up and down); the
    path always carries min_mtu, so the workload must complete (black hole fallback)."""
    up = r.choice([1452, 1452, 1500, 9000])
    cfg = {"seed": r.randrange(1 << 30), "link_mtu": links[0],
           "server": {"idle_ms": 60000, "mtud_upper": up, "mtud_interval_ms": r.choice([300, 2000, 600000]),
                      "mtud_cooldown_ms": r.choice([200, 2000, 60000]),
                      "initial_mtu": r.choice([1200, 1200, 1300, 1452])},
           "client": {"idle_ms": 60000, "mtud_upper": up, "mtud_interval_ms": r.choice([300, 2000, 600000]),
                      "mtud_cooldown_ms": r.choice([200, 2000, 60000]),
                      "initial_mtu": r.choice([1200, 1200, 1300, 1452])}}
    if r.random() < 0.3:
        cfg["server"]["mtud"] = False
    if r.random() < 0.3:
        cfg["client"]["mtud"] = False
    if up > 1472 or r.random() < 0.3:
        cfg["server_tp"] = [[3, r.choice([1500, 9000, 65527])]]
        cfg["client_tp"] = [[3, r.choice([1500, 9000, 65527])]]
    cfg["max_datagrams"] = r.choice([1, 2, 5, 10])
    senders = r.choice([[1], [0], [0, 1]])
    steps = [{"do": "connect", "n": 1}, {"do": "run_until", "what": "connected", "max_us": 20000000}]
    for n in senders:
        steps.append(bulk(r, n, size=r.choice([60000, 150000, 300000])))
    for v in links[1:]:
        steps.append({"do": "run", "us": r.choice([3000, 15000, 40000, 90000, 250000, 1000000])})
        steps.append({"do": "set", "key": "link_mtu", "v": v})
    steps.append({"do": "run_until", "what": "apps", "max_us": 120000000})
    steps.append({"do": "run", "us": r.choice([100000, 1500000])})
    return {"cfg": cfg, "steps": steps,
            "tag": {"family": "c13-shrink", "idx": idx, "links": links, "live": True}}


def fallback(r, idx):
    """A large transfer at a discovered / configured large MTU, then the path shrinks early: the
    senders must fall back to what the path carries and finish."""
    hi = r.choice([1452, 1500])
    lo = r.choice([1200, 1250, 1300, 1400])
    mk = lambda: {"idle_ms": 60000, "initial_mtu": r.choice([hi, hi, 1400]), "mtud_upper": hi,
                  "mtud_cooldown_ms": r.choice([300, 60000]), "mtud_interval_ms": r.choice([500, 600000])}
    cfg = {"seed": r.randrange(1 << 30), "link_mtu": 1500, "server": mk(), "client": mk(),
           "server_tp": [[3, 1500]], "client_tp": [[3, 1500]], "max_datagrams": r.choice([1, 4, 10])}
    if r.random() < 0.4:
        cfg["server"]["mtud"] = False
        cfg["client"]["mtud"] = False
    senders = r.choice([[1], [0], [0, 1]])
    steps = [{"do": "connect", "n": 1}, {"do": "run_until", "what": "connected", "max_us": 5000000}]
    for n in senders:
        steps.append(bulk(r, n, size=r.choice([300000, 500000])))
    steps.append({"do": "run", "us": r.choice([0, 5000, 21000, 45000, 60000])})
    steps.append({"do": "set", "key": "link_mtu", "v": lo})
    steps.append({"do": "run_until", "what": "apps", "max_us": 120000000})
    steps.append({"do": "run", "us": 200000})
    return {"cfg": cfg, "steps": steps,
            "tag": {"family": "c13-fallback", "idx": idx, "live": True, "fb": senders, "lo": lo}}


def migrate(r, idx):
    """New paths: migration to another address (new IP / same IP), spoofed replays that fail
    validation, Connection::path_changed; PATH_CHALLENGE / PATH_RESPONSE carriers."""
    cfg = {"seed": r.randrange(1 << 30), "link_mtu": r.choice([1300, 1452, 1500, 1500]),
           "server": side(r), "client": side(r)}
    peer_limits(r, cfg, 0.6)
    cfg["max_datagrams"] = r.choice([1, 3, 10])
    if r.random() < 0.25:
        cfg["pfates_s2c"] = [r.choice(["ok", "x"]) for _ in range(6)]
    steps = [{"do": "connect", "n": 1}, {"do": "run_until", "what": "connected", "max_us": 5000000}]
    steps.append(bulk(r, 0, size=r.choice([20000, 80000])))
    if r.random() < 0.5:
        steps.append(bulk(r, 1, size=r.choice([5000, 40000])))
    for _ in range(r.choice([1, 2, 3])):
        steps.append({"do": "run", "us": r.choice([2000, 11000, 35000, 200000, 900000])})
        k = r.random()
        if k < 0.45:
            steps.append({"do": "migrate", "n": 1,
                          "addr": [r.choice([1, 1, 3, 4]), r.choice([1, 2]), r.choice([50000, 50001, 7000])]})
            steps.append({"do": "op", "n": 1, "c": 0, "op": {"op": r.choice(["ping", "local_address_changed"])}})
        elif k < 0.6:
            steps.append({"do": "replay", "dir": "c2s", "nth": -1 - r.randrange(3), "from": [9, r.choice([1, 2]), 9999]})
        elif k < 0.85:
            steps.append({"do": "op", "n": r.choice([0, 1]), "c": 0, "op": {"op": "path_changed"}})
        else:
            steps.append({"do": "set", "key": "link_mtu", "v": r.choice([1250, 1400, 1500])})
        if r.random() < 0.5:
            steps.append(bulk(r, 0, size=r.choice([3000, 30000])))
    steps.append({"do": "run_until", "what": "apps", "max_us": 30000000})
    steps.append({"do": "run", "us": r.choice([300000, 2500000])})
    return {"cfg": cfg, "steps": steps, "tag": {"family": "c13-migrate", "idx": idx}}


def migrate_live(r, idx):
    """A server sending bulk data over a path smaller than its initial_mtu while the client
    changes its address (port or IP) at some moment: the transfer must complete."""
    cfg = {"seed": r.randrange(1 << 30), "link_mtu": r.choice([1300, 1300, 1400, 1500]),
           "server": {"idle_ms": 30000, "initial_mtu": r.choice([1200, 1452, 1452, 1500]),
                      "mtud": r.random() < 0.7, "mtud_cooldown_ms": r.choice([300, 60000])},
           "client": {"idle_ms": 30000}, "max_datagrams": r.choice([1, 10])}
    steps = [{"do": "connect", "n": 1}, {"do": "run_until", "what": "connected", "max_us": 5000000},
             bulk(r, 0, size=r.choice([40000, 120000])),
             {"do": "run", "us": r.choice([0, 10000, 35000, 120000, 400000, 1500000, 3000000])},
             {"do": "migrate", "n": 1, "addr": [r.choice([1, 1, 4]), r.choice([1, 2]), r.choice([50001, 7000])]},
             {"do": "op", "n": 1, "c": 0, "op": {"op": r.choice(["ping", "local_address_changed"])}},
             {"do": "run_until", "what": "apps", "max_us": 45000000}, {"do": "run", "us": 300000}]
    return {"cfg": cfg, "steps": steps, "tag": {"family": "c13-migrate-live", "idx": idx, "live": True}}


def handshake(r, idx, fate_vec=None, fate_map=None):
    """Coalesced handshake flights, Retry, lost / duplicated handshake datagrams with large and
    small initial MTUs: padding of Initial datagrams and loss probes during the handshake."""
    cfg = {"seed": r.randrange(1 << 30), "link_mtu": r.choice([1200, 1300, 1500, 1500, 9000]),
           "server": side(r), "client": side(r)}
    cfg["sf_size"] = r.choice([0, 1000, 2500, 4000, 8000])
    cfg["ch_size"] = r.choice([0, 0, 1500, 3000])
    cfg["cf_size"] = r.choice([0, 0, 2500, 4000])
    cfg["incoming"] = r.choice(["accept", "accept", "retry", "validate"])
    peer_limits(r, cfg, 0.4)
    cfg["max_datagrams"] = r.choice([1, 2, 10])
    if fate_vec is not None:
        half = len(fate_vec) // 2
        cfg["fates_c2s"] = [fate_map[f] for f in fate_vec[:half]]
        cfg["fates_s2c"] = [fate_map[f] for f in fate_vec[half:]]
    else:
        cfg["fates_c2s"] = [r.choice(["ok", "ok", "x", "dup:3000", "delay:40000"]) for _ in range(8)]
        cfg["fates_s2c"] = [r.choice(["ok", "ok", "x", "dup:3000", "delay:40000"]) for _ in range(8)]
    steps = [{"do": "connect", "n": 1}]
    if r.random() < 0.6:
        steps.append(bulk(r, 1, size=r.choice([100, 3000, 20000]), dgrams=r.random() < 0.3))
    steps.append({"do": "run_until", "what": "connected", "max_us": 20000000})
    if r.random() < 0.5:
        steps.append(bulk(r, 0, size=r.choice([100, 3000, 20000])))
    steps.append({"do": "run_until", "what": "apps", "max_us": 20000000})
    if r.random() < 0.3:
        steps.append({"do": "op", "n": r.choice([0, 1]), "c": 0, "op": {"op": "close", "code": 3, "reason": "x"}})
    steps.append({"do": "run", "us": 1000000})
    return {"cfg": cfg, "steps": steps, "tag": {"family": "c13-handshake", "idx": idx, "fvec": fate_vec}}


def gso(r, idx):
    """GSO batches 1..10, heterogeneous datagram frames around max_size, pad_to_mtu."""
    cfg = {"seed": r.randrange(1 << 30), "link_mtu": r.choice([1300, 1452, 1500, 9000]),
           "server": side(r), "client": side(r), "max_datagrams": r.choice(list(range(1, 11)))}
    for s in ("server", "client"):
        if r.random() < 0.3:
            cfg[s]["pad_to_mtu"] = True
        cfg[s].pop("gso", None)
    peer_limits(r, cfg, 0.4)
    steps = [{"do": "connect", "n": 1}, {"do": "run_until", "what": "connected", "max_us": 5000000}]
    for _ in range(r.choice([2, 4, 7])):
        n = r.choice([0, 1])
        k = r.random()
        if k < 0.45:
            for _ in range(r.choice([1, 2, 5, 12])):
                d = dgram_op(r, n)
                d["do"] = "op_noflush"
                steps.append(d)
            steps.append({"do": "flush", "n": n, "c": 0})
        elif k < 0.8:
            steps.append(bulk(r, n, size=r.choice([1000, 7000, 40000]), dgrams=r.random() < 0.4))
        elif k < 0.9:
            steps.append({"do": "set", "key": "max_datagrams", "v": r.choice(list(range(1, 11)))})
        else:
            steps.append({"do": "set", "key": "link_mtu", "v": r.choice([1200, 1350, 1500])})
        steps.append({"do": "run", "us": r.choice([0, 3000, 25000, 150000, 700000])})
    steps.append({"do": "run", "us": 1500000})
    return {"cfg": cfg, "steps": steps, "tag": {"family": "c13-gso", "idx": idx}}


def pto(r, idx, fate_vec=None, fate_map=None):
    """Loss probes: large estimates, outages and lossy paths; every datagram sent under a loss
    probe budget stays within 1200 bytes."""
    big = r.choice([1400, 1452, 1500])
    cfg = {"seed": r.randrange(1 << 30), "link_mtu": r.choice([1500, 1500, 9000]),
           "server": {"idle_ms": 30000, "initial_mtu": big, "mtud": r.random() < 0.5, "mtud_upper": 1500},
           "client": {"idle_ms": 30000, "initial_mtu": r.choice([big, 1200]), "mtud": r.random() < 0.5,
                      "mtud_upper": 1500},
           "server_tp": [[3, 1500]], "client_tp": [[3, 1500]], "max_datagrams": r.choice([1, 3, 10])}
    for s in ("server", "client"):
        if r.random() < 0.25:
            cfg[s]["pad_to_mtu"] = True
        if r.random() < 0.25:
            cfg[s]["ack_freq"] = True
    if fate_vec is not None:
        half = len(fate_vec) // 2
        pre = r.choice([2, 3, 4, 6])
        cfg["fates_c2s"] = ["ok"] * pre + [fate_map[f] for f in fate_vec[:half]]
        cfg["fates_s2c"] = ["ok"] * pre + [fate_map[f] for f in fate_vec[half:]]
    else:
        cfg["loss_pct"] = r.choice([5, 15, 30])
    steps = [{"do": "connect", "n": 1}]
    steps.append(bulk(r, 1, size=r.choice([5000, 30000, 90000]), dgrams=r.random() < 0.2))
    steps.append({"do": "run_until", "what": "connected", "max_us": 20000000})
    steps.append(bulk(r, 0, size=r.choice([5000, 30000, 90000])))
    for _ in range(r.choice([0, 1, 2])):
        steps.append({"do": "run", "us": r.choice([3000, 20000, 50000])})
        n = r.choice([0, 1])
        steps.append({"do": "blackhole", "n": n, "on": True})
        steps.append({"do": "run", "us": r.choice([150000, 600000, 2000000])})
        steps.append({"do": "blackhole", "n": n, "on": False})
    steps.append({"do": "run_until", "what": "apps", "max_us": 40000000})
    steps.append({"do": "run", "us": 500000})
    return {"cfg": cfg, "steps": steps, "tag": {"family": "c13-pto", "idx": idx, "fvec": fate_vec}}


def dgfit(r, idx):
    """Datagrams of every length just below the largest that fits, sent while acknowledgements for a
    transfer in the other direction are due: whether the frame fits next to the ACK frame (5-12
    bytes, depending on packet numbers and ranges) is a matter of one byte."""
    mtu = r.choice([1200, 1452])
    cfg = {"seed": r.randrange(1 << 30), "link_mtu": 1500,
           "server": {"idle_ms": 30000, "mtud": False, "initial_mtu": mtu, "cc": r.choice(["fixed:12000", "newreno"])},
           "client": {"idle_ms": 30000, "mtud": False, "initial_mtu": mtu}}
    w = r.choice([0, 1])        # who sends the bulk; the other one sends the datagrams
    steps = [{"do": "connect", "n": 1}, {"do": "run_until", "what": "connected", "max_us": 5000000},
             {"do": "run", "us": 200000},
             {"do": "app", "n": w, "c": 0, "streams": [{"dir": 1, "size": 400000, "chunk": 1 << 20, "finish": True}]}]
    top = 1162 if mtu == 1200 else 1414
    for _ in range(40):
        steps.append({"do": "run", "us": r.choice([500, 2000, 7000])})
        steps.append({"do": "op", "n": 1 - w, "c": 0,
                      "op": {"op": "send_dgram", "drop": True, "did": r.randrange(60000), "len": top - r.randrange(0, 16)}})
    steps.append({"do": "run", "us": 2000000})
    return {"cfg": cfg, "steps": steps, "tag": {"family": "c13-dgfit", "idx": idx}}
