"""C18 — async API: no lost wakeups, cancellation-safe, clean teardown.

Pipeline: MC of the design model AsyncWake.tla (wake-up protocol between connection driver and
application futures, tokio-Notify semantics, handle reference counts) -> GEN: TLC enumerates every
scheduler choice prefix (SeqGen) -> each prefix is combined with a seeded scenario (application tasks,
cancellation points, handle-drop points, network and scheduler parameters) -> RUN: qv-async executes
the scenario on the real `quinn` crate under a deterministic executor that implements quinn's public
Runtime/AsyncTimer/AsyncUdpSocket/UdpSender traits -> VAL: TLC validates the recorded trace against
AsyncWakeTrace.tla.
"""
import json
import os
import random
import shutil
import time
from concurrent.futures import ThreadPoolExecutor

import verif as V

HDIR = os.path.join(V.ROOT, "harness-async")
BIN = os.path.join(HDIR, "target", "release", "qv-async")

ASSUMPTIONS = [
    "schedules are those of a single-threaded executor: every interleaving is at poll granularity; races between "
    "threads inside one poll are covered only by the design model AsyncWake.tla (lock-granular), not by the replayed runs",
    "toy crypto provider (plaintext payload, keyed checksum tag) instead of TLS; virtual clock; in-memory UDP network "
    "with per-datagram delay, optional loss / duplication / sender back-pressure / GSO-GRO batching",
    "a lost wakeup is reported only at a final quiescent point (no runnable task, no timer, nothing in flight); a wakeup "
    "that is missed but later rescued by an unrelated timer is not reported",
    "completion conditions are computed from application-level facts (bytes accepted by write, bytes returned by read, "
    "finish/reset/stop/close calls, handle drops); connection-level flow control is left at its default (unlimited) so "
    "that only per-stream windows can block a writer",
    "a registration left in blocked_readers/blocked_writers until the stream handle is dropped is documented behaviour "
    "and not flagged; staleness is demanded only once the task holds no stream handle and no pending future",
]


# design-model variants with a seeded defect; TLC refutes NoLostWakeup in each (run once, not part of the check):
#   java ... tlc2.TLC -config MC_AsyncWake_bug_<name>.cfg AsyncWake.tla      (counterexample length in states)
BROKEN_VARIANTS = {"late_register": 10, "late_notified": 15, "no_wake": 8, "no_close_wake": 9}


def build_harness():
    t = time.time()
    rc, out = V.sh(["cargo", "build", "--release", "--offline"], 1800, cwd=HDIR,
                   env={"CARGO_NET_OFFLINE": "true"}, check=False)
    if rc != 0:
        raise V.ToolError("harness-async build failed:\n" + out[-6000:])
    V.log("[build] harness-async ok in %.1fs" % (time.time() - t))


# ------------------------------------------------------------------------------------------------
# scenario generator

CANCEL_SAFE = {"read", "read_chunk", "read_chunks", "write", "write_chunks", "open_uni", "open_bi",
               "accept_uni", "accept_bi", "read_dgram", "read_all", "accept_conn"}
AWAITABLE = CANCEL_SAFE | {"write_all", "read_to_end", "stopped", "closed", "wait_idle", "connect", "send_dgram_wait"}


def cancel_plan(r):
    plan = []
    for _ in range(r.choice([1, 1, 1, 2])):
        if r.random() < 0.5:
            plan.append({"polls": r.choice([1, 1, 2, 3])})
        else:
            plan.append({"us": r.choice([1, 50, 150, 400, 1000, 5000, 30000])})
    return plan


def writer_ops(r, opener, bidi, total, rng_sleep=True):
    ops = []
    if rng_sleep and r.random() < 0.4:
        ops.append({"op": "sleep", "us": r.choice([100, 1000, 20000, 300000, 2000000])})
    if opener:
        ops.append({"op": "open_bi" if bidi else "open_uni"})
    left = total
    while left > 0:
        n = min(left, r.choice([1, 7, 100, 600, 1200, 3000, 6000]))
        kind = r.choice(["write", "write", "write_all", "write_all", "write_chunks"])
        op = {"op": kind, "n": n}
        if kind == "write_chunks":
            op["pieces"] = r.choice([1, 2, 3])
        ops.append(op)
        left -= n
        if r.random() < 0.15:
            ops.append({"op": "sleep", "us": r.choice([10, 500, 30000, 1500000])})
        if r.random() < 0.05:
            ops.append({"op": "yield"})
    end = r.random()
    if end < 0.15:
        # wait for the peer's verdict without finishing
        ops.append({"op": "stopped"})
    if end < 0.6:
        ops.append({"op": "finish"})
    elif end < 0.72:
        ops.append({"op": "reset", "code": r.choice([1, 5, 9])})
    # else: implicit finish when the handle is dropped
    if r.random() < 0.5:
        ops.append({"op": "stopped"})
    return ops


def reader_ops(r, acceptor, bidi, first=True):
    ops = []
    if r.random() < 0.25:
        ops.append({"op": "sleep", "us": r.choice([100, 5000, 400000, 3000000])})
    if acceptor:
        ops.append({"op": "accept_bi" if bidi else "accept_uni"})
    style = r.random()
    if style < 0.6:
        kind = r.choice(["read", "read_chunk", "read_chunks"])
        op = {"op": "read_all", "kind": kind, "n": r.choice([1, 50, 700, 1500, 10000])}
        if op["n"] < 100:
            op["max_rounds"] = r.choice([5, 40, 200])
        if kind == "read_chunks":
            op["k"] = r.choice([1, 2, 4])
        ops.append(op)
    elif style < 0.75:
        ops.append({"op": "read_to_end", "n": r.choice([100, 20000, 100000])})
    else:
        # partial read, then stop or just drop
        for _ in range(r.choice([0, 1, 2, 3])):
            ops.append({"op": r.choice(["read", "read_chunk"]), "n": r.choice([10, 500, 2000])})
        if r.random() < 0.4:
            ops.append({"op": "sleep", "us": r.choice([1000, 200000, 4000000])})
        if r.random() < 0.6:
            ops.append({"op": "stop", "code": r.choice([2, 3, 11])})
            if r.random() < 0.5:
                # keep the handle for a while: only the explicit stop() may have told the peer
                ops.append({"op": "sleep", "us": r.choice([100000, 5000000])})
    return ops


def root_tail(r, is_server):
    t = r.random()
    if t < 0.3:
        return [{"op": "closed"}]
    if t < 0.55:
        return [{"op": "sleep", "us": r.choice([1000, 50000, 900000, 5000000])},
                {"op": "close", "code": r.choice([0, 3, 7, 42])}]
    if t < 0.7:
        return []
    if t < 0.8:
        return [{"op": "sleep", "us": r.choice([1000, 400000, 5000000])}, {"op": "ep_close", "code": r.choice([0, 9])},
                {"op": "wait_idle"}]
    if t < 0.9:
        return [{"op": "closed"}, {"op": "wait_idle"}, {"op": "open_conns"}]
    return [{"op": "sleep", "us": r.choice([20000, 2000000])}, {"op": "drop_conn"}, {"op": "wait_idle"}]


def sprinkle(r, ops, p_cancel, p_trunc):
    """cancellation points and early handle drops"""
    out = []
    for op in ops:
        op = dict(op)
        if op["op"] in AWAITABLE and r.random() < p_cancel:
            op["cancel"] = cancel_plan(r)
            if op["op"] in CANCEL_SAFE:
                op["retry"] = r.random() < 0.8
        out.append(op)
    if out and r.random() < p_trunc:
        k = r.randrange(0, len(out) + 1)
        out = out[:k]
        if r.random() < 0.5:
            out.append({"op": r.choice(["drop_recv", "drop_send", "drop_conn", "sleep"]), "us": 1000})
    return out


def base_cfg(r, prefix):
    lossy = r.random() < 0.2
    return {
        "net": {
            "delay_us": r.choice([20, 200, 200, 1000, 10000]),
            "jitter_us": r.choice([0, 0, 30, 300]),
            "loss_pm": r.choice([10, 30]) if lossy else 0,
            "dup_pm": r.choice([0, 0, 20]),
            "block_pm": r.choice([0, 0, 0, 100]),
            "block_us": r.choice([5, 50, 700]),
            "gso": r.choice([1, 1, 4]),
            "gro": r.choice([1, 1, 4]),
        },
        "sched": {
            "mode": r.choice(["uniform", "uniform", "fifo", "lifo", "pct"]),
            "poll_cost_us": r.choice([0, 0, 3, 40]),
            "pct_d": r.choice([1, 3, 6]),
            "at": r.choice([0, 3, 8, 15, 25, 40, 60, 90]),
            "prefix": list(prefix) if prefix else [],
        },
        "clients": 1, "idle_ms": 0, "keepalive_ms": 0,
        "stream_window": r.choice([300, 1000, 4000, 65536]),
        "send_window": 0,
        "max_uni": 4, "max_bi": 4,
        "sup_hold": r.random() < 0.7,
        "max_polls": 60000, "max_time_ms": 900000,
    }


def gen_limit_chain(r, idx, prefix=None):
    """Tiny stream-count limits: a later open depends on every earlier stream having been retired, i.e. on the
    implicit finish / reset / stop performed when handles are dropped (stopped or not, send and recv halves)."""
    cfg = base_cfg(r, prefix)
    cfg["max_uni"] = r.choice([1, 1, 2])
    cfg["max_bi"] = r.choice([1, 1, 2])
    tasks = [{"ep": 0, "root": True, "ops": []}, {"ep": 1, "root": True, "ops": []}]

    def opener(bidi, k):
        ops = []
        if r.random() < 0.3:
            ops.append({"op": "sleep", "us": r.choice([100, 20000, 1000000])})
        for _ in range(k):
            ops.append({"op": "open_bi" if bidi else "open_uni"})
            n = r.choice([0, 1, 1, 300, 3000])
            if n:
                ops.append({"op": r.choice(["write", "write_all"]), "n": n})
            mid = r.random()
            if mid < 0.35:
                # learn the peer's verdict first: a later drop then meets a stopped stream
                ops.append({"op": "stopped", "cancel": [{"us": r.choice([20000, 500000, 3000000])}]})
            elif mid < 0.55:
                ops.append({"op": "sleep", "us": r.choice([1000, 100000, 2000000])})
            end = r.random()
            if end < 0.3:
                ops.append({"op": "finish"})
            elif end < 0.45:
                ops.append({"op": "reset", "code": r.choice([1, 5])})
            # else: nothing; the drop at the next open (or at the end of the task) must finish / reset it
            if bidi:
                rd = r.random()
                if rd < 0.4:
                    ops.append({"op": "read_all", "kind": r.choice(["read", "read_chunk"]), "n": 2000, "max_rounds": 20})
                elif rd < 0.6:
                    ops.append({"op": "stop", "code": 4})
            if r.random() < 0.3:
                ops.append({"op": r.choice(["drop_send", "drop_recv"])})
        return ops

    def acceptor(bidi, k):
        ops = []
        if r.random() < 0.3:
            ops.append({"op": "sleep", "us": r.choice([100, 50000, 1500000])})
        for _ in range(k):
            ops.append({"op": "accept_bi" if bidi else "accept_uni"})
            b = r.random()
            if b < 0.3:
                ops.append({"op": "read_all", "kind": r.choice(["read", "read_chunk", "read_chunks"]), "n": 1500, "max_rounds": 30})
            elif b < 0.4:
                ops.append({"op": "read_to_end", "n": 20000})
            elif b < 0.6:
                ops.append({"op": "read", "n": r.choice([1, 100])})
                ops.append({"op": "stop", "code": r.choice([2, 3])})
            elif b < 0.8:
                ops.append({"op": "stop", "code": r.choice([2, 3])})
            # else: drop the RecvStream unread (implicit stop)
            if r.random() < 0.3:
                ops.append({"op": "sleep", "us": r.choice([1000, 300000])})
            if bidi:
                w = r.random()
                if w < 0.4:
                    ops.append({"op": "write_all", "n": r.choice([1, 500])})
                    ops.append({"op": "finish"})
                elif w < 0.55:
                    ops.append({"op": "reset", "code": 6})
                # else: the drop finishes it
        return ops

    def side(root, peer_root):
        for _ in range(r.choice([1, 1, 2])):
            bidi = r.random() < 0.4
            k = r.choice([2, 3, 4])
            tasks.append({"ep": -1, "ops": opener(bidi, k), "with_ep": False})
            root["ops"].append({"op": "spawn", "t": len(tasks) - 1})
            tasks.append({"ep": -1, "ops": acceptor(bidi, k if r.random() < 0.85 else k - 1), "with_ep": False})
            peer_root["ops"].append({"op": "spawn", "t": len(tasks) - 1})

    srv, cli = tasks[0], tasks[1]
    srv["ops"].append({"op": "accept_conn"})
    cli["ops"].append({"op": "connect"})
    side(cli, srv)
    if r.random() < 0.4:
        side(srv, cli)
    srv["ops"] += root_tail(r, True) if r.random() < 0.5 else [{"op": "closed"}]
    cli["ops"] += root_tail(r, False) if r.random() < 0.5 else [{"op": "closed"}]
    return {"run": idx, "seed": r.getrandbits(48), "cfg": cfg, "tasks": tasks, "family": "limit_chain"}


def gen_zero_rtt(r, idx, prefix=None):
    """0-RTT: the client uses the connection before the handshake completes (Connecting::into_0rtt with a session
    ticket) and blocks on early streams; when the server refuses early data every blocked operation must resolve."""
    cfg = base_cfg(r, prefix)
    cfg["ticket"] = True
    cfg["early_accept"] = r.random() < 0.3
    cfg["max_uni"] = r.choice([2, 4, 16])
    cfg["max_bi"] = r.choice([2, 4])
    tasks = [{"ep": 0, "root": True, "ops": []}, {"ep": 1, "root": True, "ops": []}]
    srv, cli = tasks[0], tasks[1]
    srv["ops"].append({"op": "accept_conn"})
    if r.random() < 0.3:
        cli["ops"].append({"op": "sleep", "us": r.choice([10, 5000])})
    cli["ops"].append({"op": "connect", "zero_rtt": True})
    # streams opened again after a rejection, while the early handles are still around
    late = (not cfg["early_accept"]) and r.random() < 0.6
    if late:
        cfg["stream_window"] = r.choice([300, 300, 1000])      # the new streams' writers block
    for _ in range(r.choice([1, 2, 3, 4])):
        bidi = r.random() < 0.6
        ops = [{"op": "open_bi" if bidi else "open_uni"}]
        n = r.choice([0, 1, 200, 200, 3000])
        if n:
            ops.append({"op": r.choice(["write", "write_all", "write_chunks"]), "n": n})
        if r.random() < 0.4:
            ops.append({"op": "finish"})
        blk = r.random()
        if bidi and blk < 0.5:
            ops.append({"op": r.choice(["read", "read_chunk", "read_chunks", "read_to_end"]), "n": 1000})
        elif blk < 0.75:
            ops.append({"op": "stopped"})
        else:
            ops.append({"op": "write_all", "n": 70000})
        if r.random() < 0.2:
            ops[-1]["cancel"] = cancel_plan(r)
            ops[-1]["retry"] = ops[-1]["op"] in CANCEL_SAFE
        if late:
            # the task keeps its (by then stale) early handles for a while: they are dropped when streams
            # opened after the rejection - which start numbering again - are in use
            ops.append({"op": "sleep", "us": r.choice([2000, 20000, 100000, 400000])})
        tasks.append({"ep": -1, "ops": ops, "with_ep": False})
        cli["ops"].append({"op": "spawn", "t": len(tasks) - 1})
        if late:
            lops = [{"op": "sleep", "us": r.choice([3000, 10000, 50000])}, {"op": "open_bi" if bidi else "open_uni"}]
            for _ in range(r.choice([2, 3])):
                lops += [{"op": "write_all", "n": r.choice([100, 700])}, {"op": "sleep", "us": r.choice([5000, 60000, 200000])}]
            lops.append({"op": "finish"})
            tasks.append({"ep": -1, "ops": lops, "with_ep": False})
            cli["ops"].append({"op": "spawn", "t": len(tasks) - 1})
        # the server's counterpart (only ever sees the stream when early data is accepted or never at all)
        sops = [{"op": "accept_bi" if bidi else "accept_uni"},
                {"op": "read_all", "kind": r.choice(["read", "read_chunk"]), "n": 1500, "max_rounds": 60}]
        if bidi:
            sops += [{"op": "write_all", "n": r.choice([1, 400])}, {"op": "finish"}]
        tasks.append({"ep": -1, "ops": sops, "with_ep": False})
        srv["ops"].append({"op": "spawn", "t": len(tasks) - 1})
    cli["ops"] += r.choice([[{"op": "closed"}], [{"op": "sleep", "us": 3000000}, {"op": "close", "code": 1}], []])
    srv["ops"] += r.choice([[{"op": "closed"}], [{"op": "sleep", "us": 5000000}, {"op": "close", "code": 2}]])
    return {"run": idx, "seed": r.getrandbits(48), "cfg": cfg, "tasks": tasks, "family": "zero_rtt"}


def gen_close_race(r, idx, prefix=None):
    """Endpoint::close() while a server task is holding an Incoming it has not decided about yet: whatever it
    does with it afterwards, nothing may survive the close - the handshake future resolves, wait_idle returns."""
    cfg = base_cfg(r, prefix)
    tasks = [{"ep": 0, "root": True, "ops": []}, {"ep": 1, "root": True, "ops": []}]
    srv, cli = tasks[0], tasks[1]
    closer = [{"op": "sleep", "us": r.choice([1, 50, 300, 1000, 5000])}] if r.random() < 0.7 else []
    closer += [{"op": "yield"} for _ in range(r.choice([0, 1, 3]))]
    closer += [{"op": "ep_close", "code": r.choice([0, 9])}, {"op": "wait_idle"}]
    tasks.append({"ep": 0, "ops": closer, "with_ep": True})
    srv["ops"].append({"op": "spawn", "t": len(tasks) - 1})
    srv["ops"].append({"op": "accept_conn", "hold": r.choice([1, 2, 5, 20, 100]), "inc": r.choice(["accept", "accept", "accept", "refuse", "drop"])})
    srv["ops"] += r.choice([[{"op": "closed"}], [{"op": "open_uni"}], [{"op": "wait_idle"}]])
    cli["ops"].append({"op": "connect"})
    cli["ops"] += r.choice([[{"op": "closed"}], [{"op": "open_uni"}, {"op": "closed"}]])
    return {"run": idx, "seed": r.getrandbits(48), "cfg": cfg, "tasks": tasks, "family": "close_race"}


def gen_script(r, idx, prefix=None):
    fam = r.random()
    if fam < 0.05:
        return gen_close_race(r, idx, prefix)
    if fam < 0.15:
        return gen_zero_rtt(r, idx, prefix)
    if fam < 0.20:
        return gen_limit_chain(r, idx, prefix)
    return gen_general(r, idx, prefix)


def gen_general(r, idx, prefix=None):
    cfg = {}
    lossy = r.random() < 0.25
    cfg["net"] = {
        "delay_us": r.choice([20, 200, 200, 1000, 10000, 40000]),
        "jitter_us": r.choice([0, 0, 30, 300, 5000]),
        "loss_pm": r.choice([10, 30, 80]) if lossy else 0,
        "dup_pm": r.choice([0, 0, 30]) if lossy else r.choice([0, 0, 0, 20]),
        "block_pm": r.choice([0, 0, 0, 50, 200]),
        "block_us": r.choice([5, 50, 700]),
        "gso": r.choice([1, 1, 4]),
        "gro": r.choice([1, 1, 4]),
    }
    cfg["sched"] = {
        "mode": r.choice(["uniform", "uniform", "fifo", "lifo", "pct"]),
        "poll_cost_us": r.choice([0, 0, 3, 40]),
        "pct_d": r.choice([1, 3, 6]),
        "at": r.choice([0, 0, 3, 8, 15, 25, 40, 60, 90, 140]),
        "prefix": list(prefix) if prefix else [],
    }
    clients = 2 if r.random() < 0.2 else 1
    cfg["clients"] = clients
    # lossy networks without an idle timeout are fine (retransmission); idle timeouts are exercised separately
    cfg["idle_ms"] = r.choice([0, 0, 0, 4000, 15000])
    cfg["keepalive_ms"] = r.choice([0, 0, 1000]) if cfg["idle_ms"] else 0
    cfg["stream_window"] = r.choice([300, 1000, 4000, 4000, 65536])
    cfg["send_window"] = r.choice([0, 0, 2000, 100000])
    cfg["max_uni"] = r.choice([1, 1, 2, 4, 16])
    cfg["max_bi"] = r.choice([1, 2, 4])
    cfg["sup_hold"] = r.random() < 0.7
    cfg["max_polls"] = 60000
    # with keep-alive a connection whose applications wait for ever never goes quiet: stop early
    cfg["max_time_ms"] = 40000 if cfg["keepalive_ms"] else 900000
    p_cancel = r.choice([0.0, 0.1, 0.3, 0.6])
    p_trunc = r.choice([0.0, 0.0, 0.15, 0.4])

    tasks = []
    # index 0: server root, 1..clients: client roots
    server_root = {"ep": 0, "root": True, "ops": []}
    tasks.append(server_root)
    client_roots = []
    for ci in range(clients):
        cr = {"ep": 1 + ci, "root": True, "ops": []}
        tasks.append(cr)
        client_roots.append(cr)

    # one shape shared by all connections of the run (server-side children are generic)
    n_c2s = r.choice([0, 1, 1, 2, 3])
    n_s2c = r.choice([0, 0, 1, 2])
    n_bi = r.choice([0, 0, 1, 2])
    n_dg = r.choice([0, 0, 0, 2, 5])
    sizes = lambda: r.choice([0, 1, 300, 2500, 5000, 12000])

    def add(ops, with_ep=False):
        tasks.append({"ep": -1, "ops": sprinkle(r, ops, p_cancel, p_trunc), "with_ep": with_ep})
        return len(tasks) - 1

    def children(server):
        ids = []
        # unidirectional, this side sends
        for _ in range(n_s2c if server else n_c2s):
            ids.append(add(writer_ops(r, True, False, sizes())))
        # unidirectional, this side receives
        for _ in range(n_c2s if server else n_s2c):
            ids.append(add(reader_ops(r, True, False)))
        for _ in range(n_bi):
            if server:
                # accept, read request, answer
                ops = reader_ops(r, True, True)
                ops += writer_ops(r, False, True, sizes(), rng_sleep=False)
            else:
                ops = writer_ops(r, True, True, sizes())
                ops += reader_ops(r, False, True)
            ids.append(add(ops))
        if n_dg:
            snd = [{"op": r.choice(["send_dgram", "send_dgram", "send_dgram_wait"]), "n": r.choice([4, 40, 600])}
                   for _ in range(n_dg)]
            rcv = [{"op": "read_dgram"} for _ in range(n_dg if r.random() < 0.8 else n_dg + 1)]
            if r.random() < 0.5:
                ids.append(add(snd if server else rcv))
                ids.append(add(rcv if server else snd))
            else:
                ids.append(add(snd + rcv if server else rcv + snd))
        return ids

    inc = r.choice(["accept"] * 8 + ["retry", "refuse", "drop"])
    for ci, cr in enumerate(client_roots):
        ops = []
        if r.random() < 0.3:
            ops.append({"op": "sleep", "us": r.choice([10, 3000, 100000])})
        ops.append({"op": "connect"})
        for k in children(False):
            ops.append({"op": "spawn", "t": k})
        ops += root_tail(r, False)
        cr["ops"] = sprinkle(r, ops, p_cancel * 0.3, p_trunc * 0.3)
        sops = []
        acc = {"op": "accept_conn"}
        if ci == 0 and inc != "accept":
            acc["inc"] = inc
            sops.append(acc)
            if inc == "retry":
                sops.append({"op": "accept_conn"})
        else:
            sops.append(acc)
        for k in children(True):
            sops.append({"op": "spawn", "t": k})
        if ci + 1 < len(client_roots) and r.random() < 0.5:
            # a helper keeps this connection's handle while the root goes on accepting
            sops.insert(len(sops), {"op": "spawn", "t": add(root_tail(r, True), with_ep=False)})
        server_root["ops"] += sops
    server_root["ops"] += root_tail(r, True)
    server_root["ops"] = sprinkle(r, server_root["ops"], p_cancel * 0.3, p_trunc * 0.2)
    return {"run": idx, "seed": r.getrandbits(48), "cfg": cfg, "tasks": tasks}


# ------------------------------------------------------------------------------------------------
# run + validate

def run_and_validate(scripts, tag, shards=V.NPROC, keep=False, rounds=4):
    d = V.workdir("run_" + tag)
    shards = max(1, min(shards, len(scripts)))
    per = (len(scripts) + shards - 1) // shards
    jobs = []
    for k in range(shards):
        chunk = scripts[k * per:(k + 1) * per]
        if not chunk:
            continue
        sf = os.path.join(d, "scripts_%02d.ndjson" % k)
        with open(sf, "w") as f:
            for s in chunk:
                f.write(json.dumps(s, separators=(",", ":")) + "\n")
        jobs.append((k, sf, k * per, len(chunk)))

    def one(job):
        k, sf, first, n = job
        out = os.path.join(d, "trace_%02d.ndjson" % k)
        rc, o = V.sh([BIN, "run", sf, out, "--first-run", str(first)], 1500, check=False)
        crashed = None
        if rc != 0:
            # the process died (abort / stack overflow): the run after the last complete one is to blame
            last = first - 1
            try:
                with open(out) as f:
                    for line in f:
                        if line.startswith('{"clients"') or '"ev":"Reset"' in line:
                            try:
                                last = json.loads(line)["run"]
                            except Exception:
                                pass
            except FileNotFoundError:
                pass
            crashed = last + 1 if last + 1 < first + n else last
        return (out, first, n, crashed)

    t = time.time()
    with ThreadPoolExecutor(max_workers=V.NPROC) as ex:
        outs = list(ex.map(one, jobs))
    V.log("[run] %d scripts in %d shards, %.1fs" % (len(scripts), len(jobs), time.time() - t))

    def val(i):
        out, first, n, crashed = outs[i]
        try:
            return V.validate("AsyncWakeTrace.tla", "AsyncWakeTrace.cfg", out, "%s_%d_%02d" % (tag, os.getpid(), i), timeout=1500)
        except V.ToolError:
            # TLC's scratch directory vanished under it (concurrent clean-up of /verif/work): try once more
            return V.validate("AsyncWakeTrace.tla", "AsyncWakeTrace.cfg", out, "%s_%d_%02dr" % (tag, os.getpid(), i), timeout=1500)

    t = time.time()
    with ThreadPoolExecutor(max_workers=8) as ex:
        res = list(ex.map(val, range(len(outs))))
    lines = sum(x["lines"] for x in res)
    V.log("[val] AsyncWakeTrace over %d files, %d lines, %.1fs" % (len(outs), lines, time.time() - t))
    viol = []
    known = []
    hist = {}
    states = 0
    for (out, first, n, crashed), rr in zip(outs, res):
        for k in rr["known"]:
            run = int(k["run"][0]) if k["run"] and k["run"][0].lstrip("-").isdigit() else -1
            known.append({"names": k["names"], "script": scripts[run] if 0 <= run < len(scripts) else None})
        states += rr["states"]
        for k, c in rr["hist"].items():
            hist[k] = hist.get(k, 0) + c
        if crashed is not None:
            viol.append({"clauses": ["HarnessCrash"], "script": scripts[crashed] if crashed < len(scripts) else None,
                         "key": "run%d" % crashed, "detail": {"file": out}})
        for v in rr["violations"]:
            run = int(v["run"][0]) if v["run"] and v["run"][0].lstrip("-").isdigit() else -1
            viol.append({"clauses": sorted(v["clauses"]), "script": scripts[run] if 0 <= run < len(scripts) else None,
                         "key": "run%d" % run, "detail": {"line": v["line"], "file": os.path.basename(out)}})
    if not keep and not os.environ.get("VERIF_KEEP"):
        shutil.rmtree(d, ignore_errors=True)
    return viol, known, {"lines": lines, "states": states, "hist": hist}


def make_scripts(tier, seed):
    """GEN: every TLC-enumerated scheduler prefix combined with seeded scenarios, plus purely seeded ones"""
    r = random.Random(seed * 7919 + 18)
    quick = tier == "quick"
    prefixes, gst = V.gen("SeqGen.tla", "SeqGen_sched6.cfg" if quick else "SeqGen_sched8.cfg", "C18")
    n_pref = 1500 if quick else 3 * 6561
    n_rand = 1500 if quick else 40000
    chosen = prefixes if len(prefixes) <= n_pref else r.sample(prefixes, n_pref)
    scripts = []
    while len(scripts) < n_pref:
        for p in chosen:
            if len(scripts) >= n_pref:
                break
            scripts.append(gen_script(r, len(scripts), prefix=p))
    for _ in range(n_rand):
        scripts.append(gen_script(r, len(scripts)))
    return scripts, prefixes, gst


def check_C18(tier, seed):
    build_harness()
    mcs = [V.mc("AsyncWake.tla", "MC_AsyncWake.cfg", "C18_0")]
    scripts, prefixes, gst = make_scripts(tier, seed)
    viol, known, st = run_and_validate(scripts, "C18", shards=max(V.NPROC, len(scripts) // 400))
    nontrivial = len({json.dumps(s["tasks"], sort_keys=True) + json.dumps(s["cfg"], sort_keys=True) for s in scripts})
    cov = {
        "states": sum(x["distinct"] for x in mcs),
        "transitions": sum(x["generated"] for x in mcs),
        "model_checking": mcs,
        # ReaderRegisterLate / WaiterCreateLate belong to the deliberately broken variants (Bug # "") only
        "mc_actions_never_taken": [a for x in mcs for a in x["never_taken"]
                                   if a not in ("ReaderRegisterLate", "WaiterCreateLate")],
        "broken_variants_refuted_by_tlc": BROKEN_VARIANTS,
        "traces_validated_against_impl": len(scripts),
        "trace_lines_validated": st["lines"],
        "trace_states_checked": st["states"],
        "trace_event_counts": st["hist"],
        "scheduler_prefixes_enumerated_by_tlc": len(prefixes),
        "generator_states": gst,
        "samples": [scripts[i] for i in range(0, len(scripts), max(1, len(scripts) // 3))][:3],
        "evaluations": len(scripts),
        "distinct_nontrivial": nontrivial,
        "rule": "one evaluation = one scenario (application tasks + cancellation/drop points + network + scheduler "
                "choice sequence) executed on the real quinn crate under the deterministic executor and validated line "
                "by line by TLC against AsyncWakeTrace; distinct = distinct (cfg, tasks)",
        "exhaustive": False,
    }
    cov["known_finding_occurrences"] = len(known)
    return {"violations": viol, "known": known, "coverage": cov, "assumptions": ASSUMPTIONS, "level": "model_checking"}


def replay_C18(scripts):
    build_harness()
    scripts = [dict(s, run=i) for i, s in enumerate(scripts)]
    viol, known, st = run_and_validate(scripts, "C18_replay", shards=1, keep=True)
    return {"violations": viol, "known": known, "coverage": {"trace_lines_validated": st["lines"]},
            "assumptions": ASSUMPTIONS, "level": "model_checking"}


if __name__ == "__main__":
    import sys
    tier = sys.argv[1] if len(sys.argv) > 1 else "quick"
    seed = int(sys.argv[2]) if len(sys.argv) > 2 else 1
    res = check_C18(tier, seed)
    for v in res["violations"][:40]:
        print("VIOLATION", v["clauses"], v["key"], v.get("detail"))
    names = {}
    for k in res["known"]:
        for nm in k["names"]:
            names[nm] = names.get(nm, 0) + 1
    print("violations=%d evaluations=%d lines=%d known=%s" % (len(res["violations"]), res["coverage"]["evaluations"],
                                                               res["coverage"]["trace_lines_validated"], names))
