"""C13 - Datagrams never exceed the validated path MTU or peer limits.

MC   Mtu.tla / MC_Mtu.cfg, MC_MtuFallback.cfg   design model of DPLPMTUD, black hole detector, size rules
GEN  SeqGen.tla                                 probe fate vectors, link MTU schedules, datagram fate vectors
RUN  harness (qv), projection `mtu`             real quinn-proto connections
VAL  MtuTrace.tla                               every emitted datagram / every change of the estimate
"""
import random

import props
import scen
import scen_c13 as S
import verif as V

ASSUMPTIONS = [
    "datagram sizes and content come from the harness' independent decoder on the bytes poll_transmit returned, "
    "split by Transmit.segment_size; the estimate is the verif-hooks probe path.mtu read immediately before and "
    "after every call into the connection",
    "an MTU probe is recognised by ConnectionStats.path.sent_plpmtud_probes moving during the poll_transmit call "
    "and must then have the probe shape (one 1-RTT packet: PING [IMMEDIATE_ACK] PADDING); a declared probe loss "
    "and a black hole detection are read from lost_plpmtud_probes / black_holes_detected",
    "a loss probe is a datagram whose first packet belongs to a packet number space whose loss_probes budget "
    "(verif-hooks probe) was positive when the datagram was started",
    "the peer's max_udp_payload_size is decoded independently from the transport parameter bytes tapped at the "
    "toy crypto provider; the connection is required to honour it from the moment it holds 1-RTT keys",
    "acknowledgements are the ACK frames of delivered 1-RTT packets whose processing FrameStats confirms",
    "the fallback / delivery clause is checked on runs whose path always carries min_mtu; anti-amplification "
    "limits on MTU probes and path challenges belong to C07",
]


def scripts_for(tier, seed):
    r = random.Random(seed * 7919 + 13)
    quick = tier == "quick"
    pvecs, g1 = V.gen("SeqGen.tla", "SeqGen_drop5.cfg" if quick else "SeqGen_drop10.cfg", "C13p")
    links, g2 = V.gen("SeqGen.tla", "SeqGen_links3.cfg" if quick else "SeqGen_links4.cfg", "C13l")
    fvecs, g3 = V.gen("SeqGen.tla", "SeqGen_fates6.cfg", "C13f")
    scripts = []
    add = lambda s: scripts.append(s)
    reps = 4
    for v in pvecs:
        for _ in range(reps):
            add(S.search(r, len(scripts), pvec=v))
    for v in links:
        for _ in range(2 if quick else 3):
            add(S.shrink(r, len(scripts), v))
    n_f = 250 if quick else 4096
    for v in props.sample(fvecs, n_f, r):
        if r.random() < 0.5:
            add(S.pto(r, len(scripts), fate_vec=v, fate_map=scen.FATE_MAP))
        else:
            add(S.handshake(r, len(scripts), fate_vec=v, fate_map=scen.FATE_MAP))
    n = 1 if quick else 20
    for _ in range(200 * n):
        add(S.search(r, len(scripts)))
    for _ in range(60 * n):
        add(S.fallback(r, len(scripts)))
    for _ in range(200 * n):
        add(S.migrate(r, len(scripts)))
    for _ in range(60 * n):
        add(S.migrate_live(r, len(scripts)))
    for _ in range(120 * n):
        add(S.handshake(r, len(scripts)))
    for _ in range(160 * n):
        add(S.gso(r, len(scripts)))
    for _ in range(80 * n):
        add(S.pto(r, len(scripts)))
    for _ in range(50 * n):
        add(S.dgfit(r, len(scripts)))
    cov = {"probe_fate_vectors_enumerated_by_tlc": len(pvecs), "link_schedules_enumerated_by_tlc": len(links),
           "datagram_fate_vectors_enumerated_by_tlc": len(fvecs), "generator_states": [g1, g2, g3]}
    return scripts, cov


def check_C13(tier, seed):
    scripts, cov = scripts_for(tier, seed)
    fam = {}
    for s in scripts:
        fam[s["tag"]["family"]] = fam.get(s["tag"]["family"], 0) + 1
    cov["scripts_by_family"] = fam
    if tier == "quick":
        mcs = [("Mtu.tla", "MC_Mtu.cfg"), ("Mtu.tla", "MC_MtuFallback.cfg")]
    else:
        mcs = [("Mtu.tla", "MC_Mtu5.cfg"), ("Mtu.tla", "MC_MtuFallback5.cfg")]
    return props.generic("C13", tier, seed, mcs, scripts, [("mtu", "MtuTrace.tla", "MtuTrace.cfg")],
                         ASSUMPTIONS, extra_cov=cov)


def replay_C13(scripts):
    return props.generic("C13", "quick", 0, [], scripts, [("mtu", "MtuTrace.tla", "MtuTrace.cfg")], [], shards=1)
