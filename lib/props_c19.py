"""C19 - The UDP layer preserves boundaries, payload and metadata.

MC   Udp.tla / MC_Udp.cfg          design model of the quinn-udp contract (TLC, exhaustive)
GEN  UdpGen.tla                    TLC enumerates the bounded product of transmit descriptors
RUN  /verif/harness-udp (qv-udp)   real UdpSocketState::{send,try_send,recv} over real loopback sockets
VAL  UdpTrace.tla                  TLC validates every recorded line against the contract
"""
import json
import os
import random
import shutil
import time
from concurrent.futures import ThreadPoolExecutor

import verif as V

HARNESS = os.path.join(V.ROOT, "harness-udp")
QVU = os.path.join(HARNESS, "target", "release", "qv-udp")

# path name (as enumerated by UdpGen.tla) -> sender kind, receiver kind, destination id, own src ids, alt src ids
PATHS = {
    "v4>v4:v4": ("v4", "v4", 1, [1], []),
    "v6>v6:v6": ("v6", "v6", 2, [2], []),
    "v4>ds:v4": ("v4", "ds", 1, [1], []),
    "v6>ds:v6": ("v6", "ds", 2, [2], []),
    "ds>v4:map": ("ds", "v4", 3, [3, 1], [5, 4]),
    "ds>v6:v6": ("ds", "v6", 2, [2], []),
    "ds>ds:map": ("ds", "ds", 3, [3, 1], [5, 4]),
    "ds>ds:v6": ("ds", "ds", 2, [2], []),
    "v4any>v4any:v4b": ("v4any", "v4any", 4, [1], [4]),
    "ds>ds:mapb": ("ds", "ds", 5, [3, 1], [5, 4]),
}
SEGS = [1, 7, 500, 1200, 1452]
LENS = list(range(1, 65)) + [1199, 1200, 1452, 1472, 8192, 65487, 65488, 65507]
IOVS = [1, 1, 2, 3, 8, 31, 32, 33, 40]

ASSUMPTIONS = [
    "observed over the kernel's loopback interface of this machine: a segmentation-offloaded send reaches a GRO "
    "socket as one coalesced buffer, a socket without GRO gets it segmented; NIC-driven GRO coalescing of "
    "independently sent datagrams is covered by the design model only",
    "payload identity is the digest [length, first byte, last byte, 31-bit FNV-1a] of every slice, computed by the "
    "harness for the slices of the transmit (segment_size) and of the received buffer (stride); the spec checks "
    "the slice lengths against ceil(len/seg) and the stride rule itself",
    "loopback does not lose datagrams below the socket buffer limit (receive buffer raised to 4 MiB, at most "
    "~200 kB in flight); the harness drains until everything arrived or 2 s pass without progress",
    "the only permitted loss is EMSGSIZE for payloads above min(65535, lo MTU) - 28 (IPv4) / min(65575, lo MTU) "
    "- 48 (IPv6), and transmits with more segments than max_gso_segments() (caller error, used to force the "
    "fallback mode); in fallback mode IPv4 datagrams may carry no ECN codepoint (documented in unix.rs)",
    "control-message memory safety is out of reach of this technique: only the encoder's own assertions "
    "(panics, debug assertions are compiled in) and wrong results are observable",
    "max_gso_segments = 1 because the kernel lacks UDP_SEGMENT, EIO from a device without offload and the "
    "IP_TOS-EINVAL retry are covered by the design model; the running kernel only allows entering fallback "
    "mode through an over-long segment list (EINVAL)",
]


def build():
    t = time.time()
    rc, out = V.sh(["cargo", "build", "--release", "--offline"], 1800, cwd=HARNESS,
                   env={"CARGO_NET_OFFLINE": "true"}, check=False)
    if rc != 0:
        raise V.ToolError("harness-udp build failed:\n" + out[-6000:])
    V.log("[build] harness-udp ok in %.1fs" % (time.time() - t))
    rc, out = V.sh([QVU, "info"], 30)
    try:
        return json.loads(out.strip().splitlines()[-1])
    except Exception:
        raise V.ToolError("qv-udp info gave no JSON: " + out[-500:])


def max_payload(dst, info):
    mtu = info.get("mtu", 65536)
    return (min(65535, mtu) - 28) if dst in (1, 3, 4, 5) else (min(65575, mtu) - 48)


def k_of(ln, seg):
    return 1 if seg == 0 or seg >= ln else (ln + seg - 1) // seg


def mk_tx(r, path, ln, seg, ecn, srck, info, gso=None):
    sk, rk, dst, own, alt = PATHS[path]
    if srck == "any":
        srck = r.choice(["none", "own"])
    src = 0 if srck == "none" else r.choice(own) if srck == "own" or not alt else r.choice(alt)
    gso = info["gso"] if gso is None else gso
    nowait = 1 if (ln > max_payload(dst, info) or k_of(ln, seg) > gso) else 0
    return {"len": ln, "seg": seg, "ecn": ecn, "src": src, "dst": dst,
            "api": r.choice(["send", "try_send"]), "seed": r.getrandbits(31), "nowait": nowait}


def from_shape(r, d, info):
    """TLC-enumerated descriptor -> concrete transmit."""
    path = d["path"]
    dst = PATHS[path][2]
    if d["kind"] == "len":
        ln = d["len"]
        form = d["form"] if d["form"] != "any" else r.choice(["none", "eq", "gt"])
        seg = 0 if form == "none" else ln if form == "eq" else ln + r.choice([1, 7, 1000])
        return mk_tx(r, path, ln, seg, d["ecn"], d["src"], info)
    seg = d["seg"]
    maxk = max(1, min(info["gso"], max_payload(dst, info) // seg))
    k = min(d["cnt"], maxk)
    last = seg if d["tail"] == "full" else 1 if d["tail"] == "one" else seg - 1
    ln = (k - 1) * seg + max(1, last)
    return mk_tx(r, path, ln, seg, d["ecn"], d["src"], info)


def shape_case(r, path, txs, info):
    sk, rk, dst, _, _ = PATHS[path]
    # drain hint only: a send() right after an oversize transmit may be swallowed (stale EMSGSIZE)
    for a, b in zip(txs, txs[1:]):
        if a["len"] > max_payload(dst, info) and b["api"] == "send":
            b["nowait"] = 1
    fit = max(min(t["len"], 65535) for t in txs)
    return {"sk": sk, "rk": rk, "rx_gro": r.choice([0, 1]), "iov": r.choice(IOVS),
            "bufsz": r.choice([fit, fit, 65535, info["gro"] * 1500]), "each": r.choice([0, 0, 1]),
            "path": path, "tx": txs}


def pack(r, descs, info, group):
    """Group transmits that share a socket pair into bursts (bounded bytes / datagrams in flight)."""
    by = {}
    for d in descs:
        by.setdefault(d["path"], []).append(d)
    cases = []
    for path in sorted(by):
        ds = by[path]
        r.shuffle(ds)
        cur, nbytes, ndg = [], 0, 0
        for d in ds:
            t = from_shape(r, d, info)
            k = k_of(t["len"], t["seg"])
            if cur and (len(cur) >= group or nbytes + t["len"] > 200000 or ndg + k > 200):
                cases.append(shape_case(r, path, cur, info))
                cur, nbytes, ndg = [], 0, 0
            cur.append(t)
            nbytes += t["len"]
            ndg += k
        if cur:
            cases.append(shape_case(r, path, cur, info))
    return cases


def random_case(r, info, paths):
    path = r.choice(paths)
    dst = PATHS[path][2]
    mp = max_payload(dst, info)
    txs = []
    degraded = r.random() < 0.2
    gso = info["gso"]
    if degraded and gso > 1:
        # more segments than any kernel takes: EINVAL, offload halted, sendmsg_einval set
        txs.append(mk_tx(r, path, 300, 1, r.randrange(4), r.choice(["none", "own"]), info))
        gso = 1
    nbytes = ndg = 0
    for _ in range(r.choice([1, 1, 2, 3, 5, 8])):
        ecn = r.randrange(4)
        srck = r.choice(["none", "own", "alt"])
        if gso > 1 and r.random() < 0.7:
            seg = r.choice(SEGS + [r.randint(1, 1500)])
            maxk = max(1, min(gso, mp // seg))
            k = r.choice([r.randint(1, maxk), r.randint(1, maxk), maxk, 2])
            k = min(k, maxk)
            ln = (k - 1) * seg + r.choice([seg, seg, 1, max(1, seg - 1), r.randint(1, seg)])
        else:
            ln = r.choice(LENS + [r.randint(1, 1500), r.randint(1, mp), mp, mp + 1, 65527])
            seg = r.choice([0, ln, ln + r.randint(1, 2000)])
        if nbytes + ln > 200000 or ndg + k_of(ln, seg) > 200:
            break
        txs.append(mk_tx(r, path, ln, seg, ecn, srck, info, gso=gso))
        nbytes += ln
        ndg += k_of(ln, seg)
    if not txs:
        txs.append(mk_tx(r, path, 1200, 0, 2, "none", info, gso=gso))
    return shape_case(r, path, txs, info)


def run_and_validate(cases, tag, shards=V.NPROC, par=8):
    d = V.workdir("run_" + tag)
    shards = max(1, min(shards, len(cases)))
    per = (len(cases) + shards - 1) // shards
    jobs = []
    for k in range(shards):
        chunk = cases[k * per:(k + 1) * per]
        if not chunk:
            continue
        cf = os.path.join(d, "cases_%02d.ndjson" % k)
        with open(cf, "w") as f:
            for c in chunk:
                f.write(json.dumps(c, separators=(",", ":")) + "\n")
        jobs.append((k, cf, os.path.join(d, "udp_%02d.ndjson" % k), k * per))

    def run(job):
        k, cf, of, first = job
        rc, o = V.sh([QVU, "run", cf, of, "--first-run", str(first)], 1500, check=False)
        if rc != 0:
            raise V.ToolError("qv-udp failed on shard %d (rc=%d): %s" % (k, rc, o[-2000:]))
        return of

    t = time.time()
    # few harness processes at a time: they are I/O bound on loopback and quick
    with ThreadPoolExecutor(max_workers=4) as ex:
        files = list(ex.map(run, jobs))
    V.log("[run] %d cases in %d shards, %.1fs" % (len(cases), len(jobs), time.time() - t))

    stats = {"sent": 0, "sent_ok": 0, "sent_err": 0, "datagrams_sent": 0, "recv_metas": 0,
             "datagrams_received": 0, "coalesced_buffers": 0, "max_datagrams_in_one_buffer": 0,
             "recv_batch_sizes": set(), "panics": 0, "timeouts": 0, "fallback_runs": 0}
    for of in files:
        with open(of) as f:
            for line in f:
                if '"ev":"Sent"' in line:
                    o = json.loads(line)
                    stats["sent"] += 1
                    if o["res"] == "Ok":
                        stats["sent_ok"] += 1
                        stats["datagrams_sent"] += len(o["segs"])
                    else:
                        stats["sent_err"] += 1
                    if o["gso_after"] < o["gso_before"]:
                        stats["fallback_runs"] += 1
                elif '"ev":"Recvd"' in line:
                    o = json.loads(line)
                    n = len(o["dgs"])
                    stats["recv_metas"] += 1
                    stats["datagrams_received"] += n
                    stats["recv_batch_sizes"].add(o["n"])
                    if n > 1:
                        stats["coalesced_buffers"] += 1
                    stats["max_datagrams_in_one_buffer"] = max(stats["max_datagrams_in_one_buffer"], n)
                elif '"ev":"Panic"' in line:
                    stats["panics"] += 1
                elif '"ev":"End"' in line and '"timeout":1' in line:
                    stats["timeouts"] += 1
    stats["recv_batch_sizes"] = sorted(stats["recv_batch_sizes"])

    t = time.time()
    with ThreadPoolExecutor(max_workers=par) as ex:
        res = list(ex.map(lambda i: V.validate("UdpTrace.tla", "UdpTrace.cfg", files[i], "%s_%02d" % (tag, i)),
                          range(len(files))))
    lines = sum(r["lines"] for r in res)
    V.log("[val] UdpTrace over %d files, %d lines, %.1fs" % (len(files), lines, time.time() - t))
    viol, known, kcount = [], [], {}
    for rr in res:
        for v in rr["violations"]:
            run = int(v["run"][0]) if v["run"] and v["run"][0].lstrip("-").isdigit() else -1
            viol.append({"clauses": v["clauses"], "script": cases[run] if 0 <= run < len(cases) else None,
                         "key": "run%d" % run, "detail": {"line": v["line"], "run": v["run"]}})
        for kf in rr["known"]:
            run = int(kf["run"][0]) if kf["run"] and kf["run"][0].lstrip("-").isdigit() else -1
            for nm in kf["names"]:
                kcount[nm] = kcount.get(nm, 0) + 1
                if kcount[nm] == 1:
                    known.append({"names": [nm], "script": cases[run] if 0 <= run < len(cases) else None})
    hist = {}
    for rr in res:
        for k, n in rr["hist"].items():
            hist[k] = hist.get(k, 0) + n
    out = {"violations": viol, "known": known, "known_counts": kcount, "lines": lines,
           "states": sum(r["states"] for r in res), "hist": hist, "stats": stats}
    if not os.environ.get("VERIF_KEEP"):
        shutil.rmtree(d, ignore_errors=True)
    return out


def desc_key(c, t):
    return (c["path"], t["len"], t["seg"], t["ecn"], t["src"], t["dst"])


def check_C19(tier, seed):
    r = random.Random(seed * 7919 + 19)
    quick = tier == "quick"
    info = build()
    paths = [p for p in sorted(PATHS) if info.get("v6", True) or p == "v4>v4:v4" or p.startswith("v4any")]
    # the design model is checked while the implementation runs are generated, executed and validated
    mc_pool = ThreadPoolExecutor(max_workers=1)
    mc_fut = mc_pool.submit(V.mc, "Udp.tla", "MC_Udp.cfg" if quick else "MC_Udp4.cfg", "C19", 8)
    shapes, gst1 = V.gen("UdpGen.tla", "UdpGen_shapes.cfg" if quick else "UdpGen_shapes64.cfg", "C19s")
    lens, gst2 = V.gen("UdpGen.tla", "UdpGen_lensq.cfg" if quick else "UdpGen_lens.cfg", "C19l")
    shapes = [d for d in shapes if d["path"] in paths]
    lens = [d for d in lens if d["path"] in paths]
    group = 3 if info.get("rcvbuf", 0) >= (1 << 20) else 1
    cases = pack(r, shapes, info, group) + pack(r, lens, info, 2 * group)
    n_rand = 1500 if quick else 40000
    cases += [random_case(r, info, paths) for _ in range(n_rand)]
    try:
        res = run_and_validate(cases, "C19", shards=V.NPROC if quick else 6 * V.NPROC)
    finally:
        mc = mc_fut.result()
        mc_pool.shutdown()
    ntx = sum(len(c["tx"]) for c in cases)
    distinct = len({desc_key(c, t) for c in cases for t in c["tx"]})
    cov = {
        "states": mc["distinct"],
        "transitions": mc["generated"],
        "model_checking": [mc],
        "mc_actions_never_taken": mc["never_taken"],
        "traces_validated_against_impl": len(cases),
        "trace_lines_validated": res["lines"],
        "trace_event_counts": res["hist"],
        "samples": [cases[i] for i in (0, len(cases) // 2, len(cases) - 1)],
        "evaluations": ntx,
        "distinct_nontrivial": distinct,
        "rule": "one evaluation = one Transmit handed to the real UdpSocketState::send/try_send on a real loopback "
                "socket, received through UdpSocketState::recv and validated line by line by TLC against "
                "UdpTrace.tla; distinct = distinct (socket pair, len, segment_size, ecn, src_ip, destination)",
        "exhaustive": False,
        "shape_descriptors_enumerated_by_tlc": len(shapes),
        "length_descriptors_enumerated_by_tlc": len(lens),
        "generator_states": {"shapes": gst1, "lens": gst2},
        "random_cases": n_rand,
        "socket_capabilities": info,
        "socket_pairs_covered": paths,
        "payload_lengths_covered": len({t["len"] for c in cases for t in c["tx"]}),
        "segment_counts_covered": sorted({k_of(t["len"], t["seg"]) for c in cases for t in c["tx"]
                                          if k_of(t["len"], t["seg"]) <= info["gso"]}),
        "recv_iovec_counts_covered": sorted({c["iov"] for c in cases}),
        "known_deviation_counts": res["known_counts"],
    }
    cov.update(res["stats"])
    if res["stats"]["datagrams_received"] == 0 or res["stats"]["coalesced_buffers"] == 0:
        raise V.ToolError("vacuous run: no datagrams / no coalesced buffers observed: %s" % res["stats"])
    return {"violations": res["violations"], "known": res["known"], "coverage": cov,
            "assumptions": ASSUMPTIONS, "level": "model_checking"}


def replay_C19(scripts):
    build()
    res = run_and_validate(list(scripts), "C19replay", shards=1, par=1)
    cov = {"states": 0, "transitions": 0, "traces_validated_against_impl": len(scripts),
           "trace_lines_validated": res["lines"], "samples": list(scripts)[:1],
           "evaluations": sum(len(c["tx"]) for c in scripts), "distinct_nontrivial": len(scripts),
           "rule": "replay of saved cases", "known_deviation_counts": res["known_counts"]}
    cov.update(res["stats"])
    return {"violations": res["violations"], "known": res["known"], "coverage": cov,
            "assumptions": ASSUMPTIONS, "level": "model_checking"}


if __name__ == "__main__":
    import sys
    tier = sys.argv[1] if len(sys.argv) > 1 else "quick"
    seed = int(sys.argv[2]) if len(sys.argv) > 2 else 1
    t0 = time.time()
    out = check_C19(tier, seed)
    c = out["coverage"]
    print(json.dumps({k: c[k] for k in c if k not in ("samples", "model_checking")}, default=str))
    for v in out["violations"][:20]:
        print("VIOLATION", v["clauses"], v["key"], json.dumps(v["script"])[:600])
    for k in out["known"]:
        print("KNOWN", k["names"], json.dumps(k["script"])[:300])
    print("violations=%d known=%s wall=%.0fs" % (len(out["violations"]), c["known_deviation_counts"], time.time() - t0))
