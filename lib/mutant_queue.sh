#!/bin/bash
# mutant_queue.sh <listfile> <resultfile>: each line "<ID> <patch> [tier]"; runs them one after the other
while read -r id patch tier; do
  [ -z "$id" ] && continue
  out=$(/verif/lib/mutant_test.sh $id $patch ${tier:-quick} 2>&1); rc=$?
  python3 - "$id" "$patch" "$rc" "$2" <<PY
import json,sys
out = """$(echo "$out" | sed 's/\\/\\\\/g; s/"/\\"/g' | head -40)"""
clauses=sorted({c for l in out.splitlines() if l.startswith("VIOLATION") for c in l.split("clauses=")[-1].split(",")})
open(sys.argv[4],"a").write(json.dumps({"id":sys.argv[1],"patch":sys.argv[2],"rc":int(sys.argv[3]),"clauses":clauses,"tail":out.splitlines()[-3:]})+"\n")
PY
done < "$1"
echo QUEUE-DONE >> "$2"
