"""Per-property check pipelines."""
import json
import os
import random

import scen
import verif as V


def sample(lst, n, r):
    if len(lst) <= n:
        return list(lst)
    return r.sample(lst, n)


def collect(results, scripts, first_of):
    """Fold per-shard validation results into violations / known lists with their scripts."""
    viol, known = [], []
    for res in results:
        for v in res["violations"]:
            run = int(v["run"][0]) if v["run"] and v["run"][0].lstrip("-").isdigit() else -1
            s = scripts[run] if 0 <= run < len(scripts) else None
            viol.append({"clauses": v["clauses"], "script": s, "key": "run%d" % run,
                         "detail": {"line": v["line"], "conn": v["run"]}})
        for k in res["known"]:
            run = int(k["run"][0]) if k["run"] and k["run"][0].lstrip("-").isdigit() else -1
            known.append({"names": k["names"], "script": scripts[run] if 0 <= run < len(scripts) else None})
    return viol, known


def generic(pid, tier, seed, mcs, scripts, vals, assumptions, extra_cov=None, probe=1, shards=V.NPROC):
    """MC + RUN + VAL with evidence assembly.
    mcs: [(module, cfg)], vals: [(projection, trace module, trace cfg)]"""
    mc_res = [V.mc(m, c, "%s_%d" % (pid, i)) for i, (m, c) in enumerate(mcs)]
    projs = sorted({p for (p, _, _) in vals})
    del V.HANGS[:]
    del V.PANICS[:]
    d, shard_dirs = V.run_scripts(scripts, projs, pid, probe=probe, shards=shards)
    viol, known = [], []
    seen_panics = set()
    for (run, msg, what) in V.PANICS:
        # the entry assertions of Connection::send_stream / recv_stream (a handle for the half a
        # unidirectional stream does not have): the script asked for it, quinn refuses by contract
        if str(what).startswith("op:") and str(msg).startswith("assertion failed: id.dir() == Dir::Bi || id.initiator()"):
            continue
        # one report per distinct panic message (the first script that shows it)
        if msg in seen_panics:
            continue
        seen_panics.add(msg)
        viol.append({"clauses": ["PanicInCodeUnderTest"], "script": scripts[run] if 0 <= run < len(scripts) else None,
                     "key": "run%d" % run, "detail": {"what": "panic inside %s: %s" % (what, msg)}})
    for run in V.HANGS:
        viol.append({"clauses": ["HangInCodeUnderTest"], "script": scripts[run] if 0 <= run < len(scripts) else None,
                     "key": "run%d" % run, "detail": {"what": "a call into quinn did not return within the watchdog limit"}})
    lines = 0
    vstates = 0
    evhist = {}
    for (p, mod, cfg) in vals:
        res = V.validate_shards(mod, cfg, p, shard_dirs, "%s_%s" % (pid, p))
        for rr in res:
            for k, n in rr["hist"].items():
                evhist[p + "." + k] = evhist.get(p + "." + k, 0) + n
        v, k = collect(res, scripts, None)
        viol += v
        known += k
        lines += sum(r["lines"] for r in res)
        vstates += sum(r["states"] for r in res)
    never = [a for r in mc_res for a in r["never_taken"]]
    cov = {
        # without a separate design model the TLC states are those of the validation itself
        "states": sum(r["distinct"] for r in mc_res) if mc_res else max(1, vstates),
        "transitions": sum(r["generated"] for r in mc_res) if mc_res else max(1, lines),
        "traces_validated_against_impl": len(scripts),
        "trace_lines_validated": lines,
        "trace_states_checked": vstates,
        "trace_event_counts": evhist,
        "samples": [scripts[i] for i in range(0, len(scripts), max(1, len(scripts) // 3))][:3],
        "model_checking": mc_res,
        "mc_actions_never_taken": never,
        "evaluations": len(scripts),
        "distinct_nontrivial": len({json.dumps(s["steps"], sort_keys=True) + json.dumps(s["cfg"], sort_keys=True) for s in scripts}),
        "rule": "one evaluation = one script executed against the real quinn-proto and validated line by line by TLC; distinct = distinct (cfg, steps)",
        "exhaustive": False,
    }
    if extra_cov:
        cov.update(extra_cov)
    if not os.environ.get("VERIF_KEEP"):
        import shutil
        shutil.rmtree(d, ignore_errors=True)
    return {"violations": viol, "known": known, "coverage": cov, "assumptions": assumptions,
            "level": "model_checking"}


# ------------------------------------------------------------------------------------------------

def check_C08(tier, seed):
    r = random.Random(seed * 7919 + 8)
    quick = tier == "quick"
    hists, gst = V.gen("LifecyclePair.tla", "MC_LifecyclePairGen.cfg" if not quick else "MC_LifecyclePairGen3.cfg", "C08")
    uniq = sorted({tuple(h) for h in hists})
    n_pair = 1400 if quick else len(uniq) * 2
    n_rand = 1000 if quick else 6000
    scripts = []
    pool = uniq if len(uniq) <= n_pair else sample(uniq, n_pair, r)
    k = 0
    while len(scripts) < n_pair:
        for h in pool:
            if len(scripts) >= n_pair:
                break
            scripts.append(scen.lifecycle_from_hist(list(h), r, k))
            k += 1
    for i in range(n_rand):
        scripts.append(scen.lifecycle_random(r, i))
    # connections that end after the client has moved: what was filed under either address goes
    for i in range(200 if quick else 1500):
        scripts.append(scen.lifecycle_migrated(r, len(scripts)))
    # a close whose first datagrams are lost while the peer keeps sending: it has to be said again
    for i in range(150 if quick else 1000):
        scripts.append(scen.lifecycle_closelost(r, len(scripts)))
    # a close while the handshake is under way: nothing the application said leaves below 1-RTT protection
    for i in range(250 if quick else 2500):
        scripts.append(scen.lifecycle_earlyclose(r, len(scripts)))
    mcs = [("MC_Lifecycle.tla", "MC_Lifecycle.cfg"),
           ("LifecyclePair.tla", "MC_LifecyclePair.cfg" if quick else "MC_LifecyclePair5.cfg")]
    res = generic("C08", tier, seed, mcs, scripts,
                  [("lifecycle", "LifecycleTrace.tla", "LifecycleTrace.cfg")],
                  ["toy crypto provider (plaintext payload, keyed checksum tag) instead of TLS",
                   "idle/close timing bounds use the probe's PTO values with 5us rounding slack",
                   "timers serviced at most cfg.late_us late"],
                  extra_cov={"generator_behaviours": len(uniq), "generator_states": gst})
    return res


def check_C01(tier, seed):
    r = random.Random(seed * 7919 + 1)
    quick = tier == "quick"
    vecs, gst = V.gen("SeqGen.tla", "SeqGen_fates6.cfg" if quick else "SeqGen_fates8.cfg", "C01")
    n_vec = 1800 if quick else 12000
    n_rand = 1400 if quick else 12000
    chosen = sample(vecs, n_vec, r)
    scripts = [scen.streamdata_script(r, i, fate_vec=v) for i, v in enumerate(chosen)]
    scripts += [scen.streamdata_script(r, i) for i in range(n_rand)]
    # "any ack-frequency configuration": the rhythm is renegotiated while data flows and datagrams overtake each other
    scripts += [scen.streamdata_ackfreq(r, len(scripts) + i) for i in range(300 if quick else 4000)]
    # "whatever else happens on the connection": data written before the handshake completes (0-RTT, Retry)
    scripts += [scen.streamdata_zerortt(r, len(scripts) + i) for i in range(200 if quick else 3000)]
    # which stream's data goes first (priorities, round robin): extension, see DESIGN 0.8; the operation
    # orders are enumerated by TLC, each is played three times on top of a random backlog
    seqs, gst3 = V.gen("SeqGen.tla", "SeqGen_sched5.cfg" if quick else "SeqGen_sched6.cfg", "C01s")
    for q in sample(seqs, 400 if quick else 6000, r):
        pre = ["w%d" % r.randrange(3) for _ in range(r.choice([2, 4, 6]))]
        scripts.append(scen.sched_script(r, len(scripts), seq=pre + list(q) + ["t"] + list(q)))
    scripts += [scen.sched_script(r, len(scripts) + i) for i in range(300 if quick else 4000)]
    mcs = [("StreamData.tla", "MC_StreamData.cfg" if quick else "MC_StreamData4.cfg"),
           ("Sched.tla", "MC_Sched.cfg"), ("Sched.tla", "MC_Sched_unfair.cfg")]
    return generic("C01", tier, seed, mcs, scripts,
                   [("streamdata", "StreamDataTrace.tla", "StreamDataTrace.cfg"), ("sched", "SchedTrace.tla", "SchedTrace.cfg"),
                    # a frame that is skipped in a packet that gets acknowledged is lost for good: frame conservation (C04's ledger)
                    ("auth", "AuthTrace.tla", "AuthTrace.cfg")],
                   ["payload is the arithmetic progression (key+offset) mod 251 per stream; content errors that are a multiple of 251 bytes apart are caught by the offset checks only",
                    "toy crypto provider; network faults are those of the simulator (drop, duplicate, delay/reorder, GSO split, link MTU, CE marks)"],
                   extra_cov={"fate_vectors_enumerated_by_tlc": len(vecs), "generator_states": gst})


def check_C07(tier, seed):
    r = random.Random(seed * 7919 + 7)
    quick = tier == "quick"
    vecs, gst = V.gen("SeqGen.tla", "SeqGen_drop5.cfg" if quick else "SeqGen_fates6.cfg", "C07")
    n_rand = 3000 if quick else 40000
    scripts = []
    reps = 6 if quick else 3
    for v in vecs:
        for _ in range(reps):
            s = scen.antiamp_script(r, len(scripts), fate_vec=v)
            scripts.append(s)
    scripts += [scen.antiamp_script(r, len(scripts) + i) for i in range(n_rand)]
    # the front door as a decision table (what is answered at all, and how large): extension, DESIGN 0.8;
    # TLC enumerates all ordered pairs of datagram kinds, each pair arrives a few milliseconds apart
    pairs, gst2 = V.gen("SeqGen.tla", "SeqGen_dispatch2.cfg", "C07d")
    for pr in sample(pairs, len(pairs) if not quick else 784, r):
        scripts.append(scen.dispatch_script(r, len(scripts), labels=list(pr) + list(pr)[::-1]))
    scripts += [scen.dispatch_script(r, len(scripts) + i) for i in range(300 if quick else 4000)]
    # a Retry token presented from another address proves nothing about that address
    scripts += [scen.antiamp_retry_move(r, len(scripts) + i) for i in range(120 if quick else 1500)]
    mcs = [("AntiAmp.tla", "MC_AntiAmp.cfg"), ("Dispatch.tla", "MC_Dispatch.cfg")]
    # the 3x bound for EVERY datagram size and byte count: inductive, discharged by Apalache
    ind = V.apalache_inductive("AntiAmpInd.tla", "AInit", "ANext", "C07")
    return generic("C07", tier, seed, mcs, scripts,
                   [("antiamp", "AntiAmpTrace.tla", "AntiAmpTrace.cfg"), ("dispatch", "DispatchTrace.tla", "DispatchTrace.cfg")],
                   ["bytes received are counted by the harness network (wire size of datagrams routed to the connection), not by quinn",
                    "an address counts as validated for the spec only after the harness saw a processed Handshake packet or PATH_RESPONSE from it, or a token validated at accept",
                    "ledger of an address restarts when the connection installs a new path generation for it"],
                   extra_cov={"client_flight_fate_vectors_enumerated_by_tlc": len(vecs), "generator_states": gst,
                              "unbounded_safety": ind})


def check_C04(tier, seed):
    r = random.Random(seed * 7919 + 4)
    quick = tier == "quick"
    vecs, gst = V.gen("SeqGen.tla", "SeqGen_fates6.cfg", "C04")
    n_vec = 1000 if quick else 4096
    n_rand = 2600 if quick else 30000
    scripts = [scen.auth_script(r, i, fate_vec=v) for i, v in enumerate(sample(vecs, n_vec, r))]
    scripts += [scen.auth_script(r, len(scripts) + i) for i in range(n_rand)]
    # resuming clients and the reset token remembered with their ticket
    scripts += [scen.auth_resume_script(r, len(scripts) + i) for i in range(150 if quick else 2000)]
    mcs = [("Auth.tla", "MC_Auth.cfg" if quick else "MC_Auth10.cfg")]
    return generic("C04", tier, seed, mcs, scripts,
                   [("auth", "AuthTrace.tla", "AuthTrace.cfg")],
                   ["authenticity is that of the toy provider's keyed checksum (a tampered byte fails the tag); real AEAD is not exercised",
                    "frames processed are read from the public FrameStats deltas; the frame budget comes from the independent decoder on the sender's side",
                    "state digest excludes counters, path byte credit and the LossDetection/Pacing/KeyDiscard/MaxAckDelay timers"],
                   extra_cov={"fate_vectors_enumerated_by_tlc": len(vecs), "generator_states": gst})


def check_C05(tier, seed):
    r = random.Random(seed * 7919 + 5)
    quick = tier == "quick"
    vecs, gst = V.gen("SeqGen.tla", "SeqGen_fates6.cfg", "C05")
    n_vec = 700 if quick else 4096
    n_rand = 900 if quick else 20000
    scripts = [scen.flow_script(r, i, fate_vec=v) for i, v in enumerate(sample(vecs, n_vec, r))]
    scripts += [scen.flow_script(r, len(scripts) + i) for i in range(n_rand)]
    # credit that was lost on the way has to be granted again (extension, DESIGN 0.8): flow workloads
    # under heavy finite loss with a long quiet tail
    scripts += [scen.retx_script(r, len(scripts) + i, fate_vec=v) for i, v in enumerate(sample(vecs, 300 if quick else 2000, r))]
    scripts += [scen.retx_script(r, len(scripts) + i) for i in range(500 if quick else 6000)]
    mcs = [("Credit.tla", "MC_Credit.cfg" if quick else "MC_Credit3.cfg"), ("Retx.tla", "MC_Retx.cfg")]
    # the credit ledger for EVERY window and amount: inductive invariant discharged by Apalache
    ind = V.apalache_inductive("CreditInd.tla", "CInit", "CNext", "C05", implied="CreditInv")
    return generic("C05", tier, seed, mcs, scripts,
                   [("flow", "FlowTrace.tla", "FlowTrace.cfg"), ("retx", "RetxTrace.tla", "RetxTrace.cfg")],
                   ["the peer's limits are decoded independently from the transport parameter bytes tapped at the crypto provider and from MAX_* frames in datagrams the harness delivered and FrameStats shows as processed",
                    "write()/open() results are compared with the credit in the probe taken immediately before the call",
                    "values above 2^30 are clamped (TLC integers); no run moves that much data",
                    "0-RTT packets (remembered parameters) are outside this ledger, see C17"],
                   extra_cov={"fate_vectors_enumerated_by_tlc": len(vecs), "generator_states": gst,
                              "unbounded_safety": ind})


def cc_stage(tier, seed, r):
    """Controller contract: TLC-enumerated call histories replayed into NewReno/Cubic/BBR."""
    import subprocess, os, json as _j
    quick = tier == "quick"
    hists, gst = V.gen("SeqGen.tla", "SeqGen_cc3.cfg" if quick else "SeqGen_cc4.cfg", "C12cc")
    ops = ["s", "a", "A", "z", "e", "l", "L", "p", "c", "m", "M", "u", "x", "t", "T"]
    # longer seeded histories on top of the exhaustive short ones
    for _ in range(2000 if quick else 60000):
        hists.append([r.choice(ops) for _ in range(r.choice([6, 10, 16, 30]))])
    # many SEPARATE congestion events (each after the previous recovery period has ended), with MTU changes
    # before, between and after: the floor of two datagrams is only reached after half a dozen of them
    for ev in ("l", "c", "L", "p"):
        for k in (4, 6, 8, 12, 20):
            for pre in ([], ["m"], ["u"], ["s", "s", "a"]):
                for mid in ([], ["m"], ["M"], ["s", "a", "e"]):
                    hists.append(pre + [x for _ in range(k) for x in [ev, "t"] + mid] + ["u", ev, "t", "M", ev])
    d = V.workdir("run_C12cc")
    shards = V.NPROC
    per = (len(hists) + shards - 1) // shards
    files = []
    for k in range(shards):
        chunk = hists[k * per:(k + 1) * per]
        if not chunk:
            continue
        hf = os.path.join(d, "h%02d.ndjson" % k)
        with open(hf, "w") as f:
            for h in chunk:
                f.write(_j.dumps(h) + "\n")
        of = os.path.join(d, "cc%02d.ndjson" % k)
        V.sh([V.QV, "cc", hf, of], 600)
        files.append((of, k * per, chunk))
    from concurrent.futures import ThreadPoolExecutor
    with ThreadPoolExecutor(max_workers=8) as ex:
        res = list(ex.map(lambda i: V.validate("ControllersTrace.tla", "ControllersTrace.cfg", files[i][0], "C12cc_%02d" % i), range(len(files))))
    viol = []
    lines = 0
    for (of, first, chunk), rr in zip(files, res):
        lines += rr["lines"]
        for v in rr["violations"]:
            run = int(v["run"][0]) if v["run"][0].isdigit() else 0
            idx = run // 3 - 0
            h = chunk[idx] if 0 <= idx < len(chunk) else None
            viol.append({"clauses": v["clauses"], "script": {"cc_history": h, "controller": v["run"][1:]},
                         "key": "cc%d" % (first * 3 + run), "detail": v})
    if not os.environ.get("VERIF_KEEP"):
        import shutil
        shutil.rmtree(d, ignore_errors=True)
    return viol, {"controller_histories": len(hists), "controller_trace_lines": lines,
                  "controller_histories_exhaustive_len": 3 if quick else 4, "controller_generator_states": gst}


def check_C12(tier, seed):
    r = random.Random(seed * 7919 + 12)
    quick = tier == "quick"
    vecs, gst = V.gen("SeqGen.tla", "SeqGen_fates6.cfg", "C12")
    n_vec = 500 if quick else 4096
    # (thorough: four trace specifications over every line of every run - 14 000 seeded scenarios keep it near an hour)
    n_rand = 900 if quick else 14000
    scripts = [scen.recovery_script(r, i, fate_vec=v) for i, v in enumerate(sample(vecs, n_vec, r))]
    scripts += [scen.recovery_script(r, len(scripts) + i) for i in range(n_rand)]
    # a client that only acknowledges: the acknowledgement timers of the three spaces interleaved
    scripts += [scen.ackdelay_script(r, len(scripts) + i, fate_vec=v) for i, v in enumerate(sample(vecs, 100 if quick else 1000, r))]
    scripts += [scen.ackdelay_script(r, len(scripts) + i) for i in range(300 if quick else 3000)]
    # lossy handshakes (the C02 family): probe timeouts of the Initial and Handshake spaces, Retry, 0-RTT
    scripts += [scen.progress_script(r, len(scripts) + i, fate_vec=v) for i, v in enumerate(sample(vecs, 150 if quick else 2000, r))]
    mcs = [("Recovery.tla", "MC_Recovery4.cfg" if quick else "MC_Recovery.cfg")]
    mcs.append(("Controllers.tla", "MC_Controllers.cfg"))
    # acknowledgement generation (what loss detection feeds on): extension of the recovery specification
    mcs.append(("Ack.tla", "MC_Ack.cfg"))
    mcs.append(("AckFreq.tla", "MC_AckFreq.cfg"))
    # explicit congestion notification (the other congestion signal): extension, see DESIGN 0.8
    mcs += [("Ecn.tla", "MC_Ecn.cfg"), ("Ecn.tla", "MC_Ecn_hostile.cfg"), ("Ecn.tla", "MC_Ecn_bleached.cfg")]
    # loss detection: thresholds, loss time, the timer as a function of the state (extension, DESIGN 0.8)
    mcs.append(("LossDetect.tla", "MC_LossDetect3.cfg" if quick else "MC_LossDetect.cfg"))
    ccv, cccov = cc_stage(tier, seed, r)
    res = generic("C12", tier, seed, mcs, scripts,
                   [("recovery", "RecoveryTrace.tla", "RecoveryTrace.cfg"), ("acks", "AckTrace.tla", "AckTrace.cfg"),
                    ("ecn", "EcnTrace.tla", "EcnTrace.cfg"),
                    # loss detection (RFC 9002 5-6: RTT estimator, loss thresholds, probe timeout): extension, DESIGN 0.8
                    ("loss", "LossTrace.tla", "LossTrace.cfg")],
                   ["outstanding packets and in-flight counters are read through the verif-hooks probe before and after every call",
                    "exemptions from the gate are recognised from the independent decoder's frame list (CONNECTION_CLOSE, PATH_CHALLENGE/RESPONSE, padded PING larger than the current MTU) and from the probe's loss_probes budget",
                    "a run counts as clean when no datagram was dropped, duplicated, delayed, corrupted or injected and latency is constant"],
                   extra_cov={"fate_vectors_enumerated_by_tlc": len(vecs), "generator_states": gst}, probe=2)
    res["violations"] += ccv
    res["coverage"].update(cccov)
    return res


def check_C11(tier, seed):
    r = random.Random(seed * 7919 + 11)
    quick = tier == "quick"
    seqs, gst = V.gen("SeqGen.tla", "SeqGen_sm4.cfg" if quick else "SeqGen_sm5.cfg", "C11", timeout=1500)
    n_seq = 4000 if quick else 60000
    n_rand = 1500 if quick else 20000
    scripts = [scen.streamsm_from_seq(q, r, i) for i, q in enumerate(sample(seqs, n_seq, r))]
    scripts += [scen.streamsm_random(r, len(scripts) + i) for i in range(n_rand)]
    mcs = [("StreamSM.tla", "MC_StreamSM.cfg")]
    return generic("C11", tier, seed, mcs, scripts,
                   [("streamsm", "StreamSMTrace.tla", "StreamSMTrace.cfg")],
                   ["which control frames (STOP_SENDING, FIN, RESET_STREAM) have arrived is taken from the harness network log plus FrameStats deltas",
                    "a reset sending half may already be freed by the acknowledgement of the reset: stopped() may then report a closed stream",
                    "stream-count credit is bounded by the application-visible terminal states of both halves (sound upper bound)"],
                   extra_cov={"operation_sequences_enumerated_by_tlc": len(seqs), "generator_states": gst})


def check_C02(tier, seed):
    r = random.Random(seed * 7919 + 2)
    quick = tier == "quick"
    vecs, gst = V.gen("SeqGen.tla", "SeqGen_fates6.cfg" if quick else "SeqGen_fates8.cfg", "C02")
    drops, gst2 = V.gen("SeqGen.tla", "SeqGen_drop10.cfg" if quick else "SeqGen_drop12.cfg", "C02d")
    n_vec = 1800 if quick else 24000
    n_drop = 1024 if quick else 4096
    scripts = [scen.progress_script(r, i, fate_vec=v) for i, v in enumerate(sample(vecs, n_vec, r))]
    for d in sample(drops, n_drop, r):
        half = len(d) // 2
        scripts.append(scen.progress_script(r, len(scripts), drops_only=([x == "x" for x in d[:half]], [x == "x" for x in d[half:]])))
    for _ in range(24 if quick else 200):
        scripts.append(scen.progress_eager(r, len(scripts)))
    # long chains of streams under a stream-count limit of 1-3
    for _ in range(60 if quick else 600):
        scripts.append(scen.progress_manystreams(r, len(scripts)))
    mcs = [("Progress.tla", "MC_Progress.cfg" if quick else "MC_Progress3.cfg"),
           # key updates "requested at any moment by either side": extension spec validated on the same runs
           ("KeyUpdate.tla", "MC_KeyUpdate.cfg"),
           # which keys exist when (what the handshake's progress rests on): extension, same runs
           ("HsKeys.tla", "MC_HsKeys.cfg")]
    return generic("C02", tier, seed, mcs, scripts,
                   [("progress", "ProgressTrace.tla", "ProgressTrace.cfg"), ("keys", "KeyTrace.tla", "KeyTrace.cfg"),
                    ("hs", "HsTrace.tla", "HsTrace.cfg")],
                   ["fair loss is made concrete as: faults only on a TLC-enumerated prefix of the datagrams of each direction, loss-free and constant delay afterwards",
                    "bounded liveness on the code: each run gets 400 s of virtual time (idle timeouts disabled); unbounded liveness is established on Progress.tla under weak fairness",
                    "applications are event driven (act only on reported events); stream limits of zero are raised by a scripted call after 300 ms"],
                   extra_cov={"fate_vectors_enumerated_by_tlc": len(vecs), "drop_subsets_enumerated_by_tlc": len(drops),
                              "generator_states": gst})


def hostile_scripts(tier, seed, kinds):
    r = random.Random(seed * 7919 + 3)
    quick = tier == "quick"
    cases, gst = V.gen("HostileGen.tla", "HostileGen.cfg", "C03")
    scripts = []
    reps = 2 if quick else 12
    for c in cases:
        if kinds is not None and c["k"] not in kinds:
            continue
        for _ in range(reps):
            scripts.append(scen.hostile_case(c, r, len(scripts)))
    return r, cases, gst, scripts


def check_C03(tier, seed):
    quick = tier == "quick"
    r, cases, gst, scripts = hostile_scripts(tier, seed, None)
    for i in range(250 if quick else 6000):
        scripts.append(scen.hostile_flood(r, len(scripts)))
    for i in range(500 if quick else 20000):
        scripts.append(scen.hostile_tp(r, len(scripts)))
    for i in range(300 if quick else 8000):
        scripts.append(scen.hostile_raw(r, len(scripts)))
    return generic("C03", tier, seed, [], scripts,
                   [("hostile", "HostileTrace.tla", "HostileTrace.cfg")],
                   ["authenticated hostile frames are appended to genuine packets and re-tagged by the harness (toy provider), hostile transport parameters are edited at the crypto provider boundary, raw datagrams go straight to Endpoint::handle",
                    "the expected outcome table Hostile!Expected assumes a victim that has just completed the handshake and opened no stream of its own",
                    "memory growth is approximated by probed queue lengths against fixed caps",
                    "no separate design model: the table is a function, TLC evaluates it per recorded case (states/transitions count validation states)"],
                   extra_cov={"abstract_cases_enumerated_by_tlc": len(cases), "generator_states": gst})


def check_C06(tier, seed):
    quick = tier == "quick"
    kinds = {"stream", "reset", "finthenmore", "morethenfin", "datagram", "crypto", "maxstreams"}
    r, cases, gst, scripts = hostile_scripts(tier, seed + 6, kinds)
    # "buffers a bounded amount": the same stream range sent over and over behind a hole
    for i in range(80 if quick else 1500):
        scripts.append(scen.hostile_flood(r, len(scripts), kind="streamdup"))
    # honest runs for the buffering bound and credit-only-for-consumed clauses
    r2 = random.Random(seed * 7919 + 6)
    honest = [scen.flow_script(r2, i) for i in range(500 if quick else 20000)]
    # datagram receive buffer: tiny buffers, datagrams of every size relative to it, late readers
    import scen_c16
    honest += [scen_c16.overflow_script(r2, len(honest) + i) for i in range(200 if quick else 4000)]
    # unread data on streams that are stopped and reset / finished in every order: credit comes back once
    srs, _ = V.gen("SeqGen.tla", "SeqGen_stoprst4.cfg" if quick else "SeqGen_stoprst5.cfg", "C06s")
    honest += [scen.stopreset_script(r2, len(honest) + i, seq=q) for i, q in enumerate(sample(srs, 700 if quick else len(srs), r2))]
    honest += [scen.stopreset_script(r2, len(honest) + i) for i in range(200 if quick else 3000)]
    mcs = [("Credit.tla", "MC_Credit.cfg" if quick else "MC_Credit3.cfg")]
    res = generic("C06", tier, seed, mcs, scripts,
                  [("hostile", "HostileTrace.tla", "HostileTrace.cfg")],
                  ["limit probes are injected one below / at / one above each advertised limit by the man in the middle",
                   "buffered-bytes bound and credit-only-for-consumed are validated on honest runs against Credit's receiver invariants via the probe"],
                  extra_cov={"abstract_cases_enumerated_by_tlc": len([c for c in cases if c["k"] in kinds]), "generator_states": gst})
    res2 = generic("C06b", tier, seed, [], honest, [("recvlimits", "RecvLimitsTrace.tla", "RecvLimitsTrace.cfg")], [])
    res["violations"] += res2["violations"]
    res["coverage"]["honest_runs_for_buffer_bound"] = len(honest)
    res["coverage"]["traces_validated_against_impl"] += len(honest)
    res["coverage"]["trace_event_counts"].update(res2["coverage"]["trace_event_counts"])
    return res


REGISTRY = {
    "C01": check_C01,
    "C03": check_C03,
    "C06": check_C06,
    "C02": check_C02,
    "C11": check_C11,
    "C12": check_C12,
    "C05": check_C05,
    "C04": check_C04,
    "C07": check_C07,
    "C08": check_C08,
}


def replay(pid, path):
    """Re-run one saved script and validate it again."""
    data = json.load(open(path))
    script = data["script"]
    fn = REGISTRY[pid]
    res = REPLAY[pid]([script])
    for v in res["violations"]:
        print("VIOLATION property=%s replay=%s clauses=%s" % (pid, path, ",".join(v["clauses"])))
    return 1 if res["violations"] else 0


def replay_C08(scripts):
    return generic("C08", "quick", 0, [], scripts, [("lifecycle", "LifecycleTrace.tla", "LifecycleTrace.cfg")], [],
                   shards=1)


def replay_C01(scripts):
    return generic("C01", "quick", 0, [], scripts, [("streamdata", "StreamDataTrace.tla", "StreamDataTrace.cfg"),
                                                     ("sched", "SchedTrace.tla", "SchedTrace.cfg"),
                                                     ("auth", "AuthTrace.tla", "AuthTrace.cfg")], [], shards=1)


def replay_C07(scripts):
    return generic("C07", "quick", 0, [], scripts, [("antiamp", "AntiAmpTrace.tla", "AntiAmpTrace.cfg"),
                                                     ("dispatch", "DispatchTrace.tla", "DispatchTrace.cfg")], [], shards=1)


def replay_C04(scripts):
    return generic("C04", "quick", 0, [], scripts, [("auth", "AuthTrace.tla", "AuthTrace.cfg")], [], shards=1)


def replay_C05(scripts):
    return generic("C05", "quick", 0, [], scripts, [("flow", "FlowTrace.tla", "FlowTrace.cfg"),
                                                     ("retx", "RetxTrace.tla", "RetxTrace.cfg")], [], shards=1)


def replay_C12(scripts):
    return generic("C12", "quick", 0, [], scripts, [("recovery", "RecoveryTrace.tla", "RecoveryTrace.cfg"),
                                                     ("acks", "AckTrace.tla", "AckTrace.cfg"),
                                                     ("ecn", "EcnTrace.tla", "EcnTrace.cfg"),
                                                     ("loss", "LossTrace.tla", "LossTrace.cfg")], [], shards=1, probe=2)


def replay_C11(scripts):
    return generic("C11", "quick", 0, [], scripts, [("streamsm", "StreamSMTrace.tla", "StreamSMTrace.cfg")], [], shards=1)


def replay_C02(scripts):
    return generic("C02", "quick", 0, [], scripts, [("progress", "ProgressTrace.tla", "ProgressTrace.cfg"),
                                                     ("keys", "KeyTrace.tla", "KeyTrace.cfg"),
                                                     ("hs", "HsTrace.tla", "HsTrace.cfg")], [], shards=1)


def replay_C03(scripts):
    return generic("C03", "quick", 0, [], scripts, [("hostile", "HostileTrace.tla", "HostileTrace.cfg")], [], shards=1)


def replay_C06(scripts):
    a = generic("C06", "quick", 0, [], [x for x in scripts if x["tag"].get("hostile")] or scripts[:1],
                [("hostile", "HostileTrace.tla", "HostileTrace.cfg")], [], shards=1)
    b = generic("C06b", "quick", 0, [], scripts, [("recvlimits", "RecvLimitsTrace.tla", "RecvLimitsTrace.cfg")], [], shards=1)
    a["violations"] += b["violations"]
    return a


REPLAY = {"C06": replay_C06, "C03": replay_C03, "C02": replay_C02, "C11": replay_C11, "C12": replay_C12, "C05": replay_C05, "C04": replay_C04, "C08": replay_C08, "C01": replay_C01, "C07": replay_C07}

def pair_stage(scripts, tag, fresh_every):
    """qv pair in shards (+ two separate qv processes for the fresh-process variant); returns
    list of (zipped file, first run, n)."""
    d = V.workdir("pair_" + tag)
    shards = max(1, min(V.NPROC, len(scripts)))
    per = (len(scripts) + shards - 1) // shards
    jobs = []
    for k in range(shards):
        chunk = scripts[k * per:(k + 1) * per]
        if not chunk:
            continue
        sf = os.path.join(d, "scripts_%02d.ndjson" % k)
        with open(sf, "w") as f:
            for s in chunk:
                f.write(json.dumps(s, separators=(",", ":")) + "\n")
        jobs.append((k, sf, k * per, len(chunk)))

    def one(job):
        k, sf, first, n = job
        out = os.path.join(d, "pair_%02d.ndjson" % k)
        rc, o = V.sh([V.QV, "pair", sf, out, "--first-run", str(first)], 3000, check=False)
        if rc != 0:
            raise V.ToolError("qv pair failed on shard %d (rc=%d): %s" % (k, rc, o[-2000:]))
        files = [(out, first, n)]
        if fresh_every and k % fresh_every == 0:
            # the same scripts in two separate processes (fresh hash seeds, fresh allocator state)
            outs = []
            for rep in ("a", "b"):
                od = os.path.join(d, "fresh_%02d_%s" % (k, rep))
                rc, o = V.sh([V.QV, "run", sf, od, "--proj", "master", "--probe", "0", "--first-run", str(first)],
                             3000, check=False)
                if rc != 0:
                    raise V.ToolError("qv run failed on shard %d (rc=%d): %s" % (k, rc, o[-2000:]))
                outs.append(os.path.join(od, "master.ndjson"))
            z = os.path.join(d, "fresh_%02d.ndjson" % k)
            V.sh([V.QV, "zip", outs[0], outs[1], z], 3000)
            for od in outs:
                import shutil
                shutil.rmtree(os.path.dirname(od), ignore_errors=True)
            files.append((z, first, n))
        return files

    from concurrent.futures import ThreadPoolExecutor
    import time
    t = time.time()
    with ThreadPoolExecutor(max_workers=V.NPROC) as ex:
        res = [f for fs in ex.map(one, jobs) for f in fs]
    V.log("[pair] %d scripts twice in %d shards, %d zipped files, %.1fs" % (len(scripts), len(jobs), len(res), time.time() - t))
    return d, res


def check_C20(tier, seed):
    r = random.Random(seed * 7919 + 20)
    quick = tier == "quick"
    mc_res = [V.mc("Driver.tla", "MC_Driver.cfg", "C20")]
    vecs, gst = V.gen("SeqGen.tla", "SeqGen_fates6.cfg" if quick else "SeqGen_fates8.cfg", "C20")
    n_vec = 500 if quick else 5000
    n_rand = 460 if quick else 5000
    scripts = [scen.determinism_script(r, i, fate_vec=v) for i, v in enumerate(sample(vecs, n_vec, r))]
    scripts += [scen.determinism_script(r, len(scripts) + i) for i in range(n_rand)]
    d, files = pair_stage(scripts, "C20", fresh_every=4 if quick else 2)

    def one(i):
        return V.validate("PairTrace.tla", "PairTrace.cfg", files[i][0], "C20_%02d" % i)

    from concurrent.futures import ThreadPoolExecutor
    with ThreadPoolExecutor(max_workers=8) as ex:
        res = list(ex.map(one, range(len(files))))
    viol, known = collect(res, scripts, None)
    evhist, lines, vstates, outs = {}, 0, 0, 0
    variants = {}
    for (f, first, n), rr in zip(files, res):
        lines += rr["lines"]
        vstates += rr["states"]
        for k, c in rr["hist"].items():
            evhist[k] = evhist.get(k, 0) + c
        var = "fresh" if os.path.basename(f).startswith("fresh") else "pair"
        variants[var] = variants.get(var, 0) + n
    byvar = {}
    for s in scripts:
        byvar[s["tag"]["variant"]] = byvar.get(s["tag"]["variant"], 0) + 1
    cov = {
        "states": sum(x["distinct"] for x in mc_res), "transitions": sum(x["generated"] for x in mc_res),
        "traces_validated_against_impl": len(scripts), "trace_lines_validated": lines,
        "trace_states_checked": vstates, "trace_event_counts": evhist,
        "pairs_by_variant": dict(byvar, fresh_process=variants.get("fresh", 0)),
        "outputs_compared": evhist.get("Out", 0),
        "samples": [scripts[i] for i in range(0, len(scripts), max(1, len(scripts) // 3))][:3],
        "model_checking": mc_res, "mc_actions_never_taken": [a for x in mc_res for a in x["never_taken"]],
        "fate_vectors_enumerated_by_tlc": len(vecs), "generator_states": gst,
        "evaluations": len(scripts) + variants.get("fresh", 0),
        "distinct_nontrivial": len({json.dumps(s["steps"], sort_keys=True) + json.dumps(s["cfg"], sort_keys=True) for s in scripts}),
        "rule": "one evaluation = one script executed twice against the real quinn-proto (second run: same / all instants shifted / extra polls / fresh process) with every output pair compared by TLC",
        "exhaustive": False,
    }
    if not os.environ.get("VERIF_KEEP"):
        import shutil
        shutil.rmtree(d, ignore_errors=True)
    return {"violations": viol, "known": known, "coverage": cov, "level": "model_checking",
            "assumptions": ["deterministic plug-ins: harness ConnectionIdGenerator, toy crypto, fixed token/reset keys (the built-in CID generators draw from the thread RNG by design)",
                            "outputs are compared as (kind, instant relative to the run's base, 31-bit FNV digest of the canonical rendering): Transmit contents decoded by the independent decoder, application events, endpoint events, call results, timer values",
                            "the shift variant moves the base Instant by up to 4e9 s; wall-clock (SystemTime) inputs are supplied by the harness TimeSource and not shifted"]}


def replay_C20(scripts):
    d, files = pair_stage(scripts, "C20r", fresh_every=1)
    res = [V.validate("PairTrace.tla", "PairTrace.cfg", f, "C20r_%d" % i) for i, (f, _, _) in enumerate(files)]
    viol, known = collect(res, scripts, None)
    return {"violations": viol, "known": known}


REGISTRY["C20"] = check_C20
REPLAY["C20"] = replay_C20

# checks living in their own modules (own harness crates)
from props_c19 import check_C19, replay_C19  # noqa: E402
REGISTRY["C19"] = check_C19
REPLAY["C19"] = replay_C19
from props_c18 import check_C18, replay_C18  # noqa: E402
REGISTRY["C18"] = check_C18
REPLAY["C18"] = replay_C18
from props_c10 import check_C10, replay_C10  # noqa: E402
REGISTRY["C10"] = check_C10
REPLAY["C10"] = replay_C10
from props_c09 import check_C09, replay_C09  # noqa: E402
REGISTRY["C09"] = check_C09
REPLAY["C09"] = replay_C09
from props_c15 import check_C15, replay_C15  # noqa: E402
REGISTRY["C15"] = check_C15
REPLAY["C15"] = replay_C15
from props_c16 import check_C16, replay_C16  # noqa: E402
REGISTRY["C16"] = check_C16
REPLAY["C16"] = replay_C16
from props_c17 import check_C17, replay_C17  # noqa: E402
REGISTRY["C17"] = check_C17
REPLAY["C17"] = replay_C17
from props_c14 import check_C14, replay_C14  # noqa: E402
REGISTRY["C14"] = check_C14
REPLAY["C14"] = replay_C14
from props_c13 import check_C13, replay_C13  # noqa: E402
REGISTRY["C13"] = check_C13
REPLAY["C13"] = replay_C13
