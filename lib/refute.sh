#!/bin/bash
# refute.sh: every planted-defect configuration spec/MC_<Module>_bug_<name>.cfg must be REFUTED by TLC
# (an invariant or property violated).  A defect variant that TLC accepts means the property it was
# planted against is vacuous.  Exit 0 when all are refuted, 1 otherwise.
cd "$(dirname "$0")/../spec" || exit 2
# TLC unpacks its module jars into java.io.tmpdir on every run: keep that out of /tmp
JT=/verif/work/refute_jtmp_$$; mkdir -p $JT
export JAVA_TOOL_OPTIONS="-Djava.io.tmpdir=$JT"
trap 'rm -rf $JT' EXIT
bad=0
for cfg in MC_*_bug_*.cfg; do
  mod=${cfg#MC_}; mod=${mod%%_bug_*}
  file=$mod.tla
  [ -f MC_$mod.tla ] && file=MC_$mod.tla
  out=$(timeout 900 tlc -workers 4 -metadir /verif/work/tlc_refute_$$ -cleanup -noGenerateSpecTE -config $cfg $file 2>&1)
  rm -rf /verif/work/tlc_refute_$$
  if echo "$out" | grep -qE "is violated|Temporal properties were violated|Deadlock reached"; then
    echo "refuted   $cfg ($(echo "$out" | grep -oE "(Invariant|Action property|Temporal propert[a-z]*) [A-Za-z]* ?(is|were) violated" | head -1))"
  else
    echo "ACCEPTED  $cfg"; bad=1
    echo "$out" | grep -E "Error|error" | head -3
  fi
done
exit $bad
