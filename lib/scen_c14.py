"""C14 scenarios: validation tokens and Retry.

present_case   - TLC case table (TokensGen/present): a harvested or minted token, tampered with or not,
                 presented by a fresh connection attempt from the same / another port / another IP,
                 at a chosen instant around its expiry, once or twice.
retry_case     - TLC case table (TokensGen/retry): what happens to / around the Retry packet, which
                 connection ID parameter of the server lies, whether the server demands a Retry.
ops_script     - TLC-enumerated operation sequences (SeqGen_tokops) over two clients with seeded
                 configuration: connect / close / wait / expire / move / spoofed replay / forced token.
natural_script - genuine Retry flow with short Retry token lifetimes, delayed or moved between the
                 Retry and the second Initial.
log_history / cache_history - component histories for `qv tokens`.
"""
from scen import base_cfg, fates

LAT = 10000          # default one-way latency of the simulated network (us)
C1 = [1, 1, 50000]   # client node 1: 10.0.1.1:50000

FLIP_POS = {"flip_type": 0, "flip_ip": 5, "flip_port": 7, "flip_odcid": 12, "flip_time": -33,
            "flip_seal": -20, "flip_nonce": -3}


def _close(n):
    return {"do": "op", "n": n, "c": 0, "peer_of": 0, "op": {"op": "close", "code": 0, "reason": ""}}


def _mutation(case, r):
    """token source and mutation list for a present case"""
    kind = case["kind"]
    mut = case["mut"]
    src = {"k": "retry", "i": 0} if kind == "retry" else {"k": "new", "i": r.choice([0, 1, 2, 3])}
    other = {"k": "new", "i": 0} if kind == "retry" else {"k": "new", "i": (src["i"] + 1) % 4}
    muts = []
    if mut in FLIP_POS:
        muts = [["flip", FLIP_POS[mut], r.choice([1, 2, 0x80, 0xff])]]
    elif mut == "trunc1":
        muts = [["trunc", 1]]
    elif mut == "trunc16":
        muts = [["trunc", 16]]
    elif mut == "trunc_most":
        muts = [["trunc", 45 if kind == "new" else 64]]
    elif mut == "ext1":
        muts = [["ext", 1]]
    elif mut == "ext16":
        muts = [["ext", 16]]
    elif mut == "nonce_swap":
        muts = [["nonce_of", other]]
    elif mut == "payload_swap":
        muts = [["payload_of", other]]
    elif mut == "rekey":
        muts = [["rekey", r.choice([0xbad, 0x70cf, 1])]]
    elif mut in ("foreign_mint", "own_mint", "own_extra", "own_cut", "own_badtype"):
        src = {"k": "mint", "kind": kind, "addr": C1, "at_us": r.choice([0, 500000, 999999]),
               "salt": r.randrange(1, 1 << 20), "odcid": "%032x" % r.getrandbits(128)}
        if mut == "foreign_mint":
            src["key"] = r.choice([0xbad, 0x70cf, 0])
        elif mut == "own_extra":
            src["extra"] = r.choice([1, 8])
        elif mut == "own_cut":
            src["cut"] = r.choice([1, 8, 13])
        elif mut == "own_badtype":
            src["type"] = r.choice([2, 1 - (kind == "new"), 0xff])
    return src, muts


def present_case(case, r, idx):
    lv = r.choice([2000, 3000])
    lr = r.choice([1000, 2000])
    cfg = base_cfg(r, clients=2, incoming="validate", token_store="cache:4:4",
                   token_log=r.choice(["default", "default", "bloom:200000:100"]),
                   validation_token_lifetime_ms=lv, retry_token_lifetime_ms=lr)
    t = {"idle_ms": 1500}
    cfg["server"] = dict(t)
    cfg["client"] = dict(t)
    steps = [{"do": "connect", "n": 1},
             {"do": "run_until", "what": "connected", "max_us": 3000000},
             {"do": "run", "us": 100000}, _close(1), {"do": "run", "us": 200000}]
    if case["addr"] == "port":
        steps.append({"do": "migrate", "n": 1, "addr": [1, 1, r.choice([50001, 49999, 443])]})
    elif case["addr"] == "ip":
        steps.append({"do": "migrate", "n": 1, "addr": r.choice([[1, 2, 50000], [7, 9, 50000], [2, 1, 50001]])})
    life = (lr if case["kind"] == "retry" else lv) * 1000
    # every harvested / minted token carries issue second 0: it expires after `life` microseconds
    arrive = {"early": None, "last_us": life - 1, "expiry": life, "past_us": life + 1}[case["clock"]]
    if arrive is not None:
        steps.append({"do": "run", "until_us": arrive - LAT})
    src, muts = _mutation(case, r)
    force = {"do": "token", "op": "force", "src": src, "mut": muts}
    steps += [force, {"do": "connect", "n": 1}, {"do": "run", "us": 600000}]
    if case["again"]:
        steps += [_close(1), {"do": "run", "us": r.choice([1000, 50000])}]
        if src["k"] == "mint":
            # the very same bytes: re-mint with identical parameters
            force = {"do": "token", "op": "force", "src": dict(src), "mut": muts}
        steps += [force, {"do": "connect", "n": r.choice([1, 1, 2])}, {"do": "run", "us": 600000}]
    steps.append({"do": "run", "us": 300000})
    return {"cfg": cfg, "steps": steps, "tag": {"family": "present", "case": case, "idx": idx}}


ECHO = {"none": [], "odcid_flip": [[0, -4]], "odcid_absent": [[0, -1]], "iscid_flip": [[15, -4]],
        "iscid_absent": [[15, -1]], "rscid_flip": [[16, -4]], "rscid_absent": [[16, -1]],
        "rscid_added": [[16, -2, "0102030405060708"]]}


def retry_case(case, r, idx):
    cfg = base_cfg(r, clients=1, incoming=case["policy"], token_store=r.choice(["", "cache:2:2"]),
                   token_log="default")
    t = {"idle_ms": 2500}
    cfg["server"] = dict(t)
    cfg["client"] = dict(t)
    if ECHO[case["echo"]]:
        cfg["server_tp"] = ECHO[case["echo"]]
    var = case["var"]
    # the Retry is the first datagram the server sends: header 23 bytes, token 65, tag 16
    if var == "corrupt_tag":
        cfg["fates_s2c"] = ["corrupt:%d:%d" % (r.randrange(88, 104), r.choice([1, 0x40, 0xff]))]
    elif var == "corrupt_token":
        cfg["fates_s2c"] = ["corrupt:%d:%d" % (r.randrange(23, 88), r.choice([1, 0x40, 0xff]))]
    elif var == "corrupt_scid":
        cfg["fates_s2c"] = ["corrupt:%d:1" % r.randrange(15, 23)]
    elif var == "dup":
        cfg["fates_s2c"] = ["dup:%d" % r.choice([0, 3000, 30000])]
    steps = [{"do": "connect", "n": 1}]
    forged = {"do": "retry_pkt", "to": 1, "salt": r.randrange(1, 1 << 20), "tok_len": r.choice([1, 20, 65])}
    if var == "forged_ok":
        steps.append(dict(forged, tag="ok", delay=1000))
    elif var == "forged_bad":
        steps.append(dict(forged, tag="bad", delay=1000))
    elif var == "forged_empty":
        steps.append(dict(forged, tag="ok", tok_len=0, delay=1000))
    elif var == "forged_other_odcid":
        steps.append(dict(forged, tag="other_odcid", delay=1000))
    elif var == "forged_then_genuine":
        steps.append(dict(forged, tag=r.choice(["bad", "other_odcid"]), delay=1000))
    elif var == "forged_after_server":
        steps += [{"do": "run", "us": 2 * LAT + r.choice([1000, 5000])}, dict(forged, tag="ok", delay=0)]
    elif var == "vn_then_genuine":
        # a Version Negotiation packet that lists the client's own version must be ignored
        steps.append({"do": "vn", "to": 1, "own": True})
    elif var == "forged_second":
        # after the genuine Retry was followed: a second one, valid for the destination ID now in use
        steps += [{"do": "run", "us": r.choice([28000, 30000, 34000])}, dict(forged, tag="cur", delay=0)]
    elif var == "forged_midhandshake":
        # the server's flight arrives in two parts; a Retry valid for the ID now in use in between
        cfg["sf_size"] = 3000
        cfg["fates_s2c"] = ["ok", "delay:30000", "delay:30000", "delay:30000"]
        steps += [{"do": "run", "us": r.choice([25000, 30000, 35000])}, dict(forged, tag="cur", delay=0)]
    elif var == "second_retry":
        steps += [{"do": "run", "us": r.choice([21000, 30000, 60000])},
                  {"do": "replay", "dir": "c2s", "nth": 0}]
    steps.append({"do": "run_until", "what": "connected", "max_us": 3000000})
    if var == "late_replay":
        steps += [{"do": "replay", "dir": "s2c", "nth": 0}, {"do": "run", "us": 50000}]
    steps.append({"do": "run", "us": 300000})
    return {"cfg": cfg, "steps": steps, "tag": {"family": "retry", "case": case, "idx": idx}}


def sweep_scripts(r, per=40):
    """Every single-bit flip, every truncation and a range of extensions of a genuine Retry token and
    of a genuine NEW_TOKEN token, each presented by a fresh attempt from the issuing address."""
    out = []
    for kind, length in (("new", 46), ("retry", 65)):
        muts = [[["flip", pos, 1 << bit]] for pos in range(length) for bit in range(8)]
        muts += [[["trunc", k]] for k in range(1, length + 1)]
        muts += [[["ext", k]] for k in (1, 2, 3, 8, 15, 16, 17, 32, 64)]
        for lo in range(0, len(muts), per):
            cfg = base_cfg(r, clients=1, incoming="validate", token_store="cache:4:4", token_log="default")
            t = {"idle_ms": 1000}
            cfg["server"] = dict(t)
            cfg["client"] = dict(t)
            steps = [{"do": "connect", "n": 1}, {"do": "run_until", "what": "connected", "max_us": 3000000},
                     {"do": "run", "us": 100000}, _close(1), {"do": "run", "us": 50000}]
            src = {"k": "retry", "i": 0} if kind == "retry" else {"k": "new", "i": 0}
            for m in muts[lo:lo + per]:
                steps += [{"do": "token", "op": "force", "src": src, "mut": m}, {"do": "connect", "n": 1},
                          {"do": "run", "us": 110000}, _close(1), {"do": "run", "us": 20000}]
            # and finally the untouched token: still good
            steps += [{"do": "token", "op": "force", "src": src, "mut": []}, {"do": "connect", "n": 1},
                      {"do": "run", "us": 300000}]
            out.append({"cfg": cfg, "steps": steps, "tag": {"family": "sweep", "kind": kind, "from": lo}})
    return out


def _random_force(r):
    kind = r.choice(["retry", "new"])
    case = {"kind": kind, "mut": r.choice(["none", "none", "none", "flip_seal", "flip_ip", "flip_time", "flip_nonce",
                                           "trunc1", "ext1", "nonce_swap", "rekey", "foreign_mint", "own_mint"])}
    if case["mut"] in ("flip_port", "flip_odcid"):
        case["kind"] = "retry"
    src, muts = _mutation(case, r)
    if src["k"] == "retry":
        src["i"] = r.choice([0, -1])
    if src["k"] == "new":
        src["i"] = r.choice([0, 1, -1, -2])
    return {"do": "token", "op": "force", "src": src, "mut": muts}


def ops_script(r, idx, ops):
    lv = r.choice([1000, 2000, 3500])
    cfg = base_cfg(r, clients=2, incoming=r.choice(["validate", "validate", "accept", "retry"]),
                   token_store="cache:%d:%d" % (r.choice([0, 1, 2, 4]), r.choice([0, 1, 2, 4])),
                   token_log=r.choice(["default", "default", "bloom:64:4", "bloom:16:2", "none", "bloom:100000:100"]),
                   validation_token_lifetime_ms=lv, retry_token_lifetime_ms=r.choice([500, 1500, 15000]))
    if r.random() < 0.7:
        cfg["new_tokens"] = r.choice([0, 1, 2, 3])
    t = {"idle_ms": 1200}
    cfg["server"] = dict(t)
    cfg["client"] = dict(t)
    if r.random() < 0.3:
        cfg["fates_c2s"] = fates(r, 12, 0.2)
        cfg["fates_s2c"] = fates(r, 12, 0.2)
    steps = [{"do": "connect", "n": 1}, {"do": "run_until", "what": "connected", "max_us": 3000000},
             {"do": "run", "us": 100000}]
    moved = 0
    for o in ops:
        if o in ("conn1", "conn2"):
            steps += [{"do": "connect", "n": int(o[-1])}, {"do": "run", "us": r.choice([30000, 200000, 600000])}]
        elif o in ("close1", "close2"):
            steps += [_close(int(o[-1])), {"do": "run", "us": r.choice([1000, 100000])}]
        elif o == "wait":
            steps.append({"do": "run", "us": r.choice([50000, 400000, 1000000])})
        elif o == "expire":
            steps.append({"do": "run", "us": lv * 1000 + r.choice([-60000, 0, 100000, 1000000])})
        elif o == "moveport":
            moved += 1
            steps.append({"do": "migrate", "n": 1, "addr": [1, 1, 50000 + moved]})
        elif o == "moveip":
            moved += 1
            steps.append({"do": "migrate", "n": 1, "addr": [1, 10 + moved, 50000]})
        elif o == "spoof":
            frm = r.choice([None, [1, 1, 50099], [9, 9, 50000]])
            st = {"do": "replay", "dir": "c2s", "nth": r.choice([0, 0, 1, 2, -1, r.randrange(0, 12)])}
            if frm:
                st["from"] = frm
            steps += [st, {"do": "run", "us": r.choice([1000, 100000])}]
        elif o == "force":
            steps.append(_random_force(r))
        elif o == "ping":
            # traffic on the live connection of client 1 (after a move: migration, tokens for the new address)
            steps += [{"do": "op", "n": 1, "c": 0, "peer_of": 0, "op": {"op": "ping"}}, {"do": "run", "us": r.choice([50000, 300000])}]
    steps.append({"do": "run", "us": 500000})
    return {"cfg": cfg, "steps": steps, "tag": {"family": "ops", "ops": ops, "idx": idx}}


def replay_periods_script(r, idx):
    """The same validation tokens presented again and again over several token lifetimes: the reuse log
    keeps its entries by expiry period, so a token used just before a period boundary and presented again
    just after it (still within its lifetime) has to be found in the other period's entries."""
    lv = r.choice([1000, 1500, 2000])
    cfg = base_cfg(r, clients=2, incoming=r.choice(["validate", "validate", "accept"]),
                   token_store="cache:4:4", token_log=r.choice(["default", "bloom:100000:100", "bloom:200000:100"]),
                   validation_token_lifetime_ms=lv, retry_token_lifetime_ms=15000)
    cfg["new_tokens"] = r.choice([2, 3, 4])
    t = {"idle_ms": 1200}
    cfg["server"] = dict(t)
    cfg["client"] = dict(t)
    steps = [{"do": "connect", "n": 1}, {"do": "run_until", "what": "connected", "max_us": 3000000},
             {"do": "run", "us": r.choice([50000, 300000, lv * 500])}]
    if r.random() < 0.5:
        # a second generation of tokens, issued part of a lifetime later
        steps += [{"do": "connect", "n": 2}, {"do": "run_until", "what": "connected", "max_us": 3000000},
                  {"do": "run", "us": r.choice([50000, lv * 300])}]
    m = cfg["new_tokens"]
    for k in range(r.choice([6, 10, 16])):
        # a fresh token (the newest one) is used - the connection it validates brings m new ones -
        steps.append({"do": "token", "op": "force", "src": {"k": "new", "i": -1}, "mut": []})
        steps.append({"do": "connect", "n": r.choice([1, 1, 2])})
        steps.append({"do": "run", "us": r.choice([60000, lv * 100, lv * 300, lv * 500])})
        # ... and one that has been used before is presented again, part of a lifetime later
        steps.append({"do": "token", "op": "force", "src": {"k": "new", "i": r.choice([-(m + 1), -(m + 1), -(2 * m + 1), 0, 1])}, "mut": []})
        steps.append({"do": "connect", "n": r.choice([1, 1, 2])})
        steps.append({"do": "run", "us": r.choice([60000, lv * 100, lv * 300, lv * 500, lv * 800])})
    steps.append({"do": "run", "us": 500000})
    return {"cfg": cfg, "steps": steps, "tag": {"family": "replay-periods", "idx": idx}}


def natural_script(r, idx):
    lr = r.choice([10, 20, 36, 37, 50, 200, 1000])
    cfg = base_cfg(r, clients=1, incoming=r.choice(["validate", "retry"]), retry_token_lifetime_ms=lr,
                   token_store=r.choice(["", "cache:2:2"]), token_log="default")
    t = {"idle_ms": 2500}
    cfg["server"] = dict(t)
    cfg["client"] = dict(t)
    # the second client datagram carries the Retry token
    d = r.choice([0, 0, 1000, 10000, lr * 1000, 970000])
    cfg["fates_c2s"] = ["ok", "delay:%d" % d] if d else ["ok", "ok"]
    if r.random() < 0.3:
        cfg["fates_s2c"] = [r.choice(["dup:2000", "delay:30000", "x", "ok"])]
    steps = [{"do": "connect", "n": 1}]
    move = r.choice([None, None, "port", "ip"])
    if move:
        steps += [{"do": "run", "us": r.choice([5000, 15000, 21000])},
                  {"do": "migrate", "n": 1, "addr": [1, 1, 50001] if move == "port" else [1, 3, 50000]}]
    steps += [{"do": "run_until", "what": "connected", "max_us": 3000000}, {"do": "run", "us": 300000}]
    return {"cfg": cfg, "steps": steps, "tag": {"family": "natural", "idx": idx}}


# ------------------------------------------------------------------------------------------------
# component histories

CAPS = [(0, 2), (2, 0), (1, 1), (1, 2), (2, 1), (2, 2), (3, 2)]


def log_history(seq, k):
    """seq: ["<nonce id>:<issued>", ..] from SeqGen_toklog"""
    calls = [[int(x.split(":")[0]), int(x.split(":")[1])] for x in seq]
    mode = ["set", "set", "bloom", "none"][k % 4] if k % 7 == 0 else "set"
    unit, life = [(1000, 2), (500, 3), (1000, 1)][k % 3]
    return {"kind": "log", "unit_ms": unit, "life": life, "mode": mode, "max_bytes": [0, 16, 64][k % 3], "calls": calls}


def log_random(r):
    life = r.choice([1, 2, 3, 5])
    t = 0
    calls = []
    for _ in range(r.choice([6, 12, 30, 60])):
        t += r.choice([0, 0, 1, 1, 2, life, 2 * life, 3 * life + 1])
        issued = max(0, t - r.choice([0, 0, 1, life - 1, life, life + 1]))
        n = r.choice([1, 2, 3, 4, 5, 6, 101, 102])
        calls.append([n, issued])
        if r.random() < 0.4:
            calls.append([n, issued])          # immediate reuse
    return {"kind": "log", "unit_ms": r.choice([1000, 500, 1]), "life": life,
            "mode": r.choice(["set", "set", "bloom"]), "max_bytes": r.choice([0, 16, 64, 256]), "calls": calls}


def cache_history(seq, k):
    ops = []
    tok = 0
    for x in seq:
        if x[0] == "s":
            tok += 1
            ops.append(["s", int(x[1:]), tok])
        else:
            ops.append(["t", int(x[1:])])
    s, p = CAPS[k % len(CAPS)]
    return {"kind": "cache", "servers": s, "per": p, "ops": ops}


def cache_random(r):
    ops = []
    tok = 0
    nsrv = r.choice([2, 4, 8])
    for _ in range(r.choice([10, 30, 100])):
        if r.random() < 0.6:
            tok += 1
            ops.append(["s", r.randrange(1, nsrv + 1), tok])
        else:
            ops.append(["t", r.randrange(1, nsrv + 1)])
    return {"kind": "cache", "servers": r.choice([0, 1, 2, 3, 5, 256]), "per": r.choice([0, 1, 2, 3]), "ops": ops}
