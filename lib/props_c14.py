"""C14: validation tokens and Retry cannot be forged, moved or replayed."""
import json
import os
import random
import shutil
from concurrent.futures import ThreadPoolExecutor

import props
import scen_c14
import verif as V

ASSUME = ["toy token key: plaintext payload + 16-byte keyed tag + 16-byte nonce; unforgeability of the real AEAD/HKDF seal is trusted, what is checked is that every bit of the token is covered by it and how decoded tokens are judged",
          "a token is 'this server's' iff its bytes equal a token seen in a Retry packet / NEW_TOKEN frame of the run (independent wire decoder) or one the script sealed under the server's key; issue address, time and original destination ID are taken from the wire event, not from the token's content",
          "server clock = harness TimeSource (virtual time); instants clamp at 2^29 us, no run lasts that long",
          "Retry integrity tags are the toy provider's keyed checksum, recomputed by the projection from the delivered bytes",
          "'followed a Retry' = the client's Initial space was re-initialised (probe) and its later Initials carry the Retry's token / source ID (wire)"]
VALS = [("tokens", "TokensTrace.tla", "TokensTrace.cfg")]


def comp_stage(tier, seed, r):
    """BloomTokenLog / TokenMemoryCache: TLC-enumerated and seeded call histories replayed directly."""
    quick = tier == "quick"
    lh, g1 = V.gen("SeqGen.tla", "SeqGen_toklog3.cfg" if quick else "SeqGen_toklog4.cfg", "C14log")
    ch, g2 = V.gen("SeqGen.tla", "SeqGen_tokcache5.cfg" if quick else "SeqGen_tokcache7.cfg", "C14cache")
    if not quick:
        lh = props.sample(lh, 40000, r)
        ch = props.sample(ch, 60000, r)
    hists = [scen_c14.log_history(h, k) for k, h in enumerate(lh)]
    hists += [scen_c14.cache_history(h, k) for k, h in enumerate(ch)]
    for _ in range(800 if quick else 20000):
        hists.append(scen_c14.log_random(r))
        hists.append(scen_c14.cache_random(r))
    viol, cov = run_histories(hists, "C14comp")
    cov.update({"log_histories_enumerated_by_tlc": len(lh), "cache_histories_enumerated_by_tlc": len(ch),
                "component_generator_states": [g1, g2]})
    return viol, cov


def run_histories(hists, tag):
    d = V.workdir("run_" + tag)
    shards = max(1, min(V.NPROC, len(hists)))
    per = (len(hists) + shards - 1) // shards
    files = []
    for k in range(shards):
        chunk = hists[k * per:(k + 1) * per]
        if not chunk:
            continue
        hf = os.path.join(d, "h%02d.ndjson" % k)
        with open(hf, "w") as f:
            for h in chunk:
                f.write(json.dumps(h, separators=(",", ":")) + "\n")
        of = os.path.join(d, "tok%02d.ndjson" % k)
        V.sh([V.QV, "tokens", hf, of, "--first-run", str(k * per)], 600)
        files.append((of, k * per, chunk))
    with ThreadPoolExecutor(max_workers=8) as ex:
        res = list(ex.map(lambda i: V.validate("TokensTrace.tla", "TokensTrace.cfg", files[i][0], "%s_%02d" % (tag, i)),
                          range(len(files))))
    viol = []
    lines = 0
    for (of, first, chunk), rr in zip(files, res):
        lines += rr["lines"]
        for v in rr["violations"]:
            run = int(v["run"][0]) if v["run"] and v["run"][0].lstrip("-").isdigit() else first
            idx = run - first
            h = chunk[idx] if 0 <= idx < len(chunk) else None
            viol.append({"clauses": v["clauses"], "script": {"token_history": h}, "key": "hist%d" % run, "detail": v})
    if not os.environ.get("VERIF_KEEP"):
        shutil.rmtree(d, ignore_errors=True)
    return viol, {"component_histories": len(hists), "component_trace_lines": lines}


def check_C14(tier, seed):
    r = random.Random(seed * 7919 + 14)
    quick = tier == "quick"
    pres, g1 = V.gen("TokensGen.tla", "TokensGen_present.cfg", "C14p")
    rets, g2 = V.gen("TokensGen.tla", "TokensGen_retry.cfg", "C14r")
    ops, g3 = V.gen("SeqGen.tla", "SeqGen_tokops4.cfg" if quick else "SeqGen_tokops5.cfg", "C14o")
    pres.sort(key=lambda c: json.dumps(c, sort_keys=True))
    rets.sort(key=lambda c: json.dumps(c, sort_keys=True))
    reps = 1 if quick else 6
    scripts = []
    for _ in range(reps):
        scripts += [scen_c14.present_case(c, r, len(scripts) + i) for i, c in enumerate(pres)]
        scripts += [scen_c14.retry_case(c, r, len(scripts) + i) for i, c in enumerate(rets)]
    sweep = scen_c14.sweep_scripts(r)
    scripts += sweep
    chosen = props.sample(sorted(ops), 700 if quick else 80000, r)
    scripts += [scen_c14.ops_script(r, len(scripts) + i, o) for i, o in enumerate(chosen)]
    scripts += [scen_c14.natural_script(r, len(scripts) + i) for i in range(200 if quick else 8000)]
    # reuse across the periods of the reuse log
    scripts += [scen_c14.replay_periods_script(r, len(scripts) + i) for i in range(250 if quick else 5000)]
    mcs = [("Tokens.tla", "MC_Tokens.cfg" if quick else "MC_Tokens3.cfg"),
           ("TokenClient.tla", "MC_TokenClient.cfg"), ("TokenClient.tla", "MC_TokenClient_impl.cfg"),
           ("TokenCache.tla", "MC_TokenCache_02.cfg"), ("TokenCache.tla", "MC_TokenCache_11.cfg"),
           ("TokenCache.tla", "MC_TokenCache_22.cfg")]
    if not quick:
        mcs += [("TokenCache.tla", "MC_TokenCache_20.cfg"), ("Tokens.tla", "MC_Tokens4.cfg")]
    res = props.generic("C14", tier, seed, mcs, scripts, VALS, ASSUME,
                        extra_cov={"present_cases_enumerated_by_tlc": len(pres), "retry_cases_enumerated_by_tlc": len(rets),
                                   "operation_sequences_enumerated_by_tlc": len(ops), "generator_states": [g1, g2, g3],
                                   "token_bit_flips_truncations_extensions_presented": 8 * (46 + 65) + 46 + 65 + 18,
                                   "sweep_scripts": len(sweep)})
    cviol, ccov = comp_stage(tier, seed, r)
    res["violations"] += cviol
    res["coverage"].update(ccov)
    return res


def replay_C14(scripts):
    hist = [s["token_history"] for s in scripts if "token_history" in s]
    rest = [s for s in scripts if "token_history" not in s]
    res = props.generic("C14", "quick", 0, [], rest, VALS, [], shards=1) if rest else \
        {"violations": [], "known": [], "coverage": {}, "assumptions": [], "level": "model_checking"}
    if hist:
        v, _ = run_histories(hist, "C14replay")
        res["violations"] += v
    return res
