"""Shared machinery of /verif/check: build, TLC runs (MC / GEN / VAL), harness runs, evidence."""
import json
import os
import re
import shutil
import subprocess
import sys
import time
from concurrent.futures import ThreadPoolExecutor

ROOT = os.path.dirname(os.path.dirname(os.path.abspath(__file__)))
SPEC = os.path.join(ROOT, "spec")
WORK = os.path.join(ROOT, "work")
HARNESS = os.path.join(ROOT, "harness")
QV = os.path.join(HARNESS, "target", "release", "qv")
EVID = os.path.join(ROOT, "evidence")
NPROC = 16


class ToolError(Exception):
    pass


def log(*a):
    print(*a, file=sys.stderr, flush=True)


def sh(cmd, timeout, cwd=None, env=None, check=True):
    e = dict(os.environ)
    if env:
        e.update(env)
    try:
        p = subprocess.run(cmd, cwd=cwd, env=e, timeout=timeout, stdout=subprocess.PIPE,
                           stderr=subprocess.STDOUT, text=True, errors="replace")
    except subprocess.TimeoutExpired:
        raise ToolError("timeout after %ss: %s" % (timeout, " ".join(cmd)[:200]))
    if check and p.returncode != 0:
        raise ToolError("command failed (%d): %s\n%s" % (p.returncode, " ".join(cmd)[:200], p.stdout[-4000:]))
    return p.returncode, p.stdout


def build_harness():
    """Rebuild the harness against /repo's current working tree (hooks enabled by feature)."""
    t = time.time()
    rc, out = sh(["cargo", "build", "--release", "--offline"], 1800, cwd=HARNESS,
                 env={"CARGO_NET_OFFLINE": "true"}, check=False)
    if rc != 0:
        raise ToolError("harness build failed:\n" + out[-6000:])
    log("[build] harness ok in %.1fs" % (time.time() - t))


def workdir(name):
    d = os.path.join(WORK, name)
    shutil.rmtree(d, ignore_errors=True)
    os.makedirs(d, exist_ok=True)
    return d


# ------------------------------------------------------------------------------------------------
# TLC

TLC_JAR = "/opt/veriftools/tla/tla2tools.jar:/opt/veriftools/tla/CommunityModules-deps.jar"


def tlc(module, cfg, meta, workers=1, env=None, timeout=900, extra=None, java_opts=None, heap="4g"):
    jtmp = meta + "_jtmp"      # TLC unpacks its module jars per run; keep that out of /tmp
    os.makedirs(jtmp, exist_ok=True)
    cmd = ["java", "-XX:+UseParallelGC", "-Xss1g", "-Xmx" + heap, "-Djava.io.tmpdir=" + jtmp]
    if java_opts:
        cmd += java_opts
    cmd += ["-cp", TLC_JAR, "tlc2.TLC", "-workers", str(workers), "-metadir", meta, "-cleanup",
            "-noGenerateSpecTE", "-config", cfg]
    if extra:
        cmd += extra
    cmd += [module]
    try:
        rc, out = sh(cmd, timeout, cwd=SPEC, env=env, check=False)
    finally:
        shutil.rmtree(jtmp, ignore_errors=True)
    return rc, out


def mc(module, cfg, tag, workers=8, timeout=900, heap="8g"):
    """Exhaustive model checking of a design model. Returns dict(states, distinct, depth, coverage)."""
    meta = os.path.join(WORK, "tlc_mc_" + tag)
    shutil.rmtree(meta, ignore_errors=True)
    t = time.time()
    rc, out = tlc(module, cfg, meta, workers=workers, timeout=timeout, extra=["-coverage", "1"], heap=heap)
    shutil.rmtree(meta, ignore_errors=True)
    m = re.search(r"(\d+) states generated, (\d+) distinct states found", out)
    if rc != 0 or "No error has been found" not in out or not m:
        raise ToolError("model checking of %s failed (rc=%d):\n%s" % (module, rc, out[-5000:]))
    depth = re.search(r"depth of the complete state graph search is (\d+)", out)
    # per-action coverage: lines like "<Action line .. of module M>: 12:34"
    cov = {}
    for mm in re.finditer(r"^<(\w+) line \d+, col \d+ to line \d+, col \d+ of module (\w+)>: (\d+):(\d+)", out, re.M):
        cov[mm.group(1)] = {"distinct": int(mm.group(3)), "taken": int(mm.group(4))}
    never = [a for a, v in cov.items() if v["taken"] == 0]
    res = {"module": module, "cfg": cfg, "generated": int(m.group(1)), "distinct": int(m.group(2)),
           "depth": int(depth.group(1)) if depth else 0, "actions": cov, "never_taken": never,
           "wall_s": round(time.time() - t, 1)}
    log("[mc] %s/%s: %d distinct states, %d generated, %.1fs%s" % (
        module, cfg, res["distinct"], res["generated"], res["wall_s"],
        (" NEVER TAKEN: %s" % never) if never else ""))
    return res


def apalache_inductive(module, init, nxt, tag, implied=None, timeout=600):
    """Unbounded safety of a small integer ledger: Apalache discharges `IndInv` of <module>
    (ConstInit constrains the constants symbolically): holds initially, is preserved by one step from
    any state satisfying it, implies `implied`.  Returns a dict for the evidence; a counterexample is a
    ToolError (the design model itself is wrong), a timeout is recorded as not run."""
    out_dir = os.path.join(WORK, "apalache_" + tag)
    shutil.rmtree(out_dir, ignore_errors=True)
    steps = [("initially", init, "IndInv", 0), ("preserved", "IndInit", "IndInv", 1)]
    if implied:
        steps.append(("implies " + implied, "IndInit", implied, 0))
    res = {"module": module, "engine": "apalache-mc", "obligations": [], "wall_s": 0}
    t = time.time()
    for (name, ini, inv, length) in steps:
        cmd = ["apalache-mc", "check", "--out-dir=" + out_dir, "--cinit=ConstInit", "--init=" + ini, "--next=" + nxt,
               "--inv=" + inv, "--length=%d" % length, module]
        try:
            rc, out = sh(cmd, timeout, cwd=SPEC, check=False)
        except Exception as ex:  # timeout / tool missing: optional stage
            res["obligations"].append({"name": name, "result": "not run (%s)" % type(ex).__name__})
            continue
        if "EXITCODE: OK" in out and "NoError" in out:
            res["obligations"].append({"name": name, "result": "proved"})
        elif "EXITCODE: ERROR (12)" in out:
            raise ToolError("Apalache refutes %s of %s:\n%s" % (name, module, out[-3000:]))
        else:
            res["obligations"].append({"name": name, "result": "not run (exit %d)" % rc})
    shutil.rmtree(out_dir, ignore_errors=True)
    res["wall_s"] = round(time.time() - t, 1)
    log("[apalache] %s: %s, %.1fs" % (module, ", ".join("%s %s" % (o["name"], o["result"]) for o in res["obligations"]), res["wall_s"]))
    return res


def gen(module, cfg, tag, timeout=900, simulate=None, seed=0, heap="8g"):
    """Run a generator model; collect every printed <<"GEN", json>> line. Returns list of objects."""
    meta = os.path.join(WORK, "tlc_gen_" + tag)
    shutil.rmtree(meta, ignore_errors=True)
    extra = []
    if simulate:
        extra = ["-simulate", "num=%d" % simulate[0], "-depth", str(simulate[1]), "-seed", str(seed)]
    rc, out = tlc(module, cfg, meta, workers=1, timeout=timeout, extra=extra, heap=heap)
    shutil.rmtree(meta, ignore_errors=True)
    items = []
    for line in out.splitlines():
        if line.startswith('<<"GEN", '):
            body = line[len('<<"GEN", '):].rstrip()
            if body.endswith(">>"):
                body = body[:-2]
            # TLC prints the JSON string as a TLA+ string literal
            try:
                s = json.loads(body)
                items.append(json.loads(s))
            except Exception:
                pass
    m = re.search(r"(\d+) states generated, (\d+) distinct states found", out)
    if not items and rc != 0:
        raise ToolError("generator %s failed (rc=%d):\n%s" % (module, rc, out[-4000:]))
    st = {"generated": int(m.group(1)) if m else 0, "distinct": int(m.group(2)) if m else 0}
    log("[gen] %s/%s: %d behaviours (%s)" % (module, cfg, len(items), st))
    return items, st


VIOL_RE = re.compile(r'<<\s*"VIOLATION",\s*\{(.*?)\},\s*"line",\s*(\d+),\s*"run",\s*<<(.*?)>>\s*>>', re.S)
UNM_RE = re.compile(r'<<\s*"UNMATCHED",\s*"line",\s*(\d+),\s*"run",\s*<<(.*?)>>\s*>>', re.S)
KNOWN_RE = re.compile(r'<<\s*"KNOWN",\s*\{(.*?)\},\s*"line",\s*(\d+),\s*"run",\s*<<(.*?)>>\s*>>', re.S)


def validate(module, cfg, trace_file, tag, timeout=1200):
    """Validate one projection file against a trace spec. Returns dict(ok, lines, violations, known)."""
    meta = os.path.join(WORK, "tlc_val_" + tag)
    shutil.rmtree(meta, ignore_errors=True)
    n = 0
    hist = {}
    cur_run = None
    null_at = None      # first line carrying a JSON null (a call that panicked has no result): TLC cannot read it
    with open(trace_file) as f:
        for line in f:
            n += 1
            i = line.find('"ev":"')
            if i >= 0:
                j = line.find('"', i + 6)
                k = line[i + 6:j]
                hist[k] = hist.get(k, 0) + 1
                if k == "Reset":
                    m = re.search(r'"run":("[^"]*"|-?\d+)', line)
                    if m:
                        cur_run = m.group(1)
            if null_at is None and ":null" in line:
                null_at = (n, cur_run)
    if n == 0:
        return {"ok": True, "lines": 0, "violations": [], "known": [], "states": 0, "hist": {}}
    rc, out = tlc(module, cfg, meta, workers=1, env={"TRACE": trace_file}, timeout=timeout,
                  java_opts=["-Dtlc2.tool.queue.IStateQueue=StateDeque"])
    shutil.rmtree(meta, ignore_errors=True)
    viol = []
    for m in VIOL_RE.finditer(out):
        names = re.findall(r'"([^"]+)"', m.group(1))
        viol.append({"clauses": names, "line": int(m.group(2)), "run": [x.strip() for x in m.group(3).split(",")]})
    for m in UNM_RE.finditer(out):
        viol.append({"clauses": ["UnmatchedLine"], "line": int(m.group(1)), "run": [x.strip() for x in m.group(2).split(",")]})
    known = []
    for m in KNOWN_RE.finditer(out):
        names = re.findall(r'"([^"]+)"', m.group(1))
        known.append({"names": names, "line": int(m.group(2)), "run": [x.strip() for x in m.group(3).split(",")]})
    m = re.search(r"(\d+) states generated", out)
    states = int(m.group(1)) if m else 0
    ok = rc == 0 and "No error has been found" in out
    if not ok and not viol and null_at is not None and "unsupported JSON value null" in out:
        # the code under test panicked inside a recorded call: that is data, not a tool error
        viol.append({"clauses": ["PanicLeftCallWithoutResult"], "line": null_at[0], "run": [str(null_at[1])]})
    if not ok and not viol:
        errs = "\n".join(x for x in out.splitlines() if x.startswith("Error") or "rror:" in x)[:3000]
        raise ToolError("trace validation %s on %s failed without a verdict (rc=%d):\n%s\n...\n%s" % (
            module, trace_file, rc, errs, out[-1500:]))
    return {"ok": ok, "lines": n, "violations": viol, "known": known, "states": states, "hist": hist}


# ------------------------------------------------------------------------------------------------
# harness runs

HANGS = []     # run ids whose execution hung inside the code under test (filled by run_scripts)
PANICS = []    # (run id, message, call) of panics inside the code under test (filled by run_scripts)


def run_scripts(scripts, projs, tag, shards=NPROC, probe=1, timeout=1800):
    """Run scripts through qv in `shards` parallel processes. Returns list of (shard_dir, first_run, n)."""
    d = workdir("run_" + tag)
    shards = max(1, min(shards, len(scripts)))
    per = (len(scripts) + shards - 1) // shards
    jobs = []
    for k in range(shards):
        chunk = scripts[k * per:(k + 1) * per]
        if not chunk:
            continue
        sf = os.path.join(d, "scripts_%02d.ndjson" % k)
        with open(sf, "w") as f:
            for s in chunk:
                f.write(json.dumps(s, separators=(",", ":")) + "\n")
        jobs.append((k, sf, k * per, len(chunk)))

    def one(job):
        k, sf, first, n = job
        out = os.path.join(d, "s%02d" % k)
        rc, o = sh([QV, "run", sf, out, "--proj", ",".join(projs), "--probe", str(probe),
                    "--first-run", str(first)], timeout, check=False)
        if rc == 3 and os.path.exists(os.path.join(out, "hang.json")):
            # a call into the code under test never returned: a finding, recorded with its script
            h = json.load(open(os.path.join(out, "hang.json")))
            HANGS.append(h["run"])
            return (out, first, n)
        if rc != 0:
            raise ToolError("qv failed on shard %d (rc=%d): %s" % (k, rc, o[-2000:]))
        pf = os.path.join(out, "panics.ndjson")
        if os.path.exists(pf):
            for line in open(pf):
                p = json.loads(line)
                PANICS.append((p["run"], p.get("msg"), p.get("what")))
        return (out, first, n)

    t = time.time()
    with ThreadPoolExecutor(max_workers=NPROC) as ex:
        res = list(ex.map(one, jobs))
    log("[run] %d scripts in %d shards, %.1fs" % (len(scripts), len(jobs), time.time() - t))
    return d, res


def validate_shards(module, cfg, proj, shard_dirs, tag, par=8, timeout=1800):
    files = [(os.path.join(sd, proj + ".ndjson"), first, n) for (sd, first, n) in shard_dirs]

    def one(i):
        f, first, n = files[i]
        # the limit grows with the size of the projection (thorough tiers: hundreds of megabytes per shard)
        tmo = max(timeout, int(os.path.getsize(f) / 100000)) if os.path.exists(f) else timeout
        return validate(module, cfg, f, "%s_%02d" % (tag, i), timeout=tmo)

    t = time.time()
    with ThreadPoolExecutor(max_workers=par) as ex:
        res = list(ex.map(one, range(len(files))))
    lines = sum(r["lines"] for r in res)
    log("[val] %s over %d files, %d lines, %.1fs" % (module, len(files), lines, time.time() - t))
    return res


# ------------------------------------------------------------------------------------------------
# known findings, evidence, verdict

def load_known():
    p = os.path.join(ROOT, "known_findings.json")
    if not os.path.exists(p):
        return []
    return json.load(open(p))["findings"]


def write_evidence(pid, tier, seed, level, coverage, assumptions, wall_s, violations):
    os.makedirs(EVID, exist_ok=True)
    ev = {"property_id": pid, "tier": tier, "seed": seed, "level": level, "coverage": coverage,
          "assumptions": assumptions, "wall_s": round(wall_s, 1), "violations": violations}
    with open(os.path.join(EVID, pid + ".json"), "w") as f:
        json.dump(ev, f, indent=1)


def save_replay(pid, script, info):
    d = os.path.join(ROOT, "work", "replay")
    os.makedirs(d, exist_ok=True)
    p = os.path.join(d, "%s_%s.json" % (pid, info.get("key", "x")))
    with open(p, "w") as f:
        json.dump({"property": pid, "script": script, "info": info}, f)
    return p
