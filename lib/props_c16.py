"""C16 - unreliable datagrams: intact, at most once, never oversized.

MC   Dgram.tla / MC_Dgram.cfg (+ MC_Dgram_wide.cfg, thorough: MC_Dgram4.cfg): design model
GEN  SeqGen.tla / SeqGen_dg3.cfg (thorough dg4): operation sequences; SeqGen_dgf5.cfg: fate vectors (ok / drop / duplicate / delay / corrupt)
RUN  scen_c16 families on the real quinn-proto (harness projection `dgram`)
VAL  DgramTrace.tla validates every send / recv / transmit / delivery / timeout line
"""
import random

import props
import scen_c16 as S
import verif as V

VALS = [("dgram", "DgramTrace.tla", "DgramTrace.cfg")]

ASSUMPTIONS = [
    "datagram payloads follow the harness convention id(2) length(2) pattern; identity of payloads shorter than 2 bytes is their length only",
    "toy crypto provider (16-byte tag, as every QUIC cipher suite); CID lengths are the configured ones; the maximum is judged only on established connections whose peer parameters were tapped",
    "DATAGRAM frames on the wire are found by the harness's independent decoder; frames processed by the receiver are counted from the public FrameStats delta of each delivered UDP datagram",
    "at-most-once is judged per UDP datagram origin (a copy made by the simulated network shares the origin of the genuine datagram)",
    "queue contents of the implementation are seen through the probe's lengths and byte counters only; their order is seen at transmit and recv",
]


def scripts_for(tier, seed):
    r = random.Random(seed * 7919 + 16)
    quick = tier == "quick"
    seqs, gst = V.gen("SeqGen.tla", "SeqGen_dg3.cfg" if quick else "SeqGen_dg4.cfg", "C16ops")
    vecs, gst2 = V.gen("SeqGen.tla", "SeqGen_dgf5.cfg", "C16fates")
    scripts = []
    n_seq = len(seqs) if quick else 6000
    for i, q in enumerate(props.sample(seqs, n_seq, r)):
        scripts.append(S.ops_script(r, i, q, fate_vec=r.choice(vecs) if r.random() < 0.5 else None))
    n_vec = 250 if quick else 3125
    for i, v in enumerate(props.sample(vecs, n_vec, r)):
        scripts.append(S.overflow_script(r, i, fate_vec=v) if i % 2 else S.app_script(r, i, fate_vec=v))
    counts = {"overflow": 300, "app": 300, "limits": 350, "mtu": 250, "hostile": 120, "burst": 400} if quick else \
             {"overflow": 6000, "app": 6000, "limits": 5000, "mtu": 5000, "hostile": 1500, "burst": 6000}
    gens = {"overflow": S.overflow_script, "app": S.app_script, "limits": S.limits_script,
            "mtu": S.mtu_script, "hostile": S.hostile_script, "burst": S.burst_script}
    for fam, n in counts.items():
        for i in range(n):
            scripts.append(gens[fam](r, i))
    cov = {"op_sequences_enumerated_by_tlc": len(seqs), "fate_vectors_enumerated_by_tlc": len(vecs),
           "generator_states": [gst, gst2]}
    return scripts, cov


def check_C16(tier, seed):
    quick = tier == "quick"
    scripts, cov = scripts_for(tier, seed)
    mcs = [("Dgram.tla", "MC_Dgram.cfg"), ("Dgram.tla", "MC_Dgram_wide.cfg")]
    if not quick:
        mcs.append(("Dgram.tla", "MC_Dgram4.cfg"))
    fams = {}
    for s in scripts:
        fams[s["tag"]["family"]] = fams.get(s["tag"]["family"], 0) + 1
    cov["families"] = fams
    return props.generic("C16", tier, seed, mcs, scripts, VALS, ASSUMPTIONS, extra_cov=cov)


def replay_C16(scripts):
    return props.generic("C16", "quick", 0, [], scripts, VALS, [], shards=1)
