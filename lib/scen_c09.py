"""C09 scenarios: several clients on one server endpoint, one victim connection that is closed,
re-established, migrated, attacked, replayed against; bystanders keep transferring."""
from scen import base_cfg, fates, _var


def routing_script(r, idx, ops):
    nclients = r.choice([2, 2, 3, 4])
    cfg = base_cfg(r, clients=nclients)
    cfg["server_cid_len"] = r.choice([8, 8, 4, 1, 20, 0])
    cfg["client_cid_len"] = r.choice([8, 8, 4, 1, 20, 0, 0])
    cfg["cid_gen"] = r.choice(["det", "det", "random"])
    if r.random() < 0.6:
        cfg["cid_lifetime_ms"] = r.choice([150, 400, 2000])
    t = {"idle_ms": 20000, "mtud": r.random() < 0.5}
    cfg["server"] = dict(t)
    cfg["client"] = dict(t)
    if r.random() < 0.4:
        cfg["fates_c2s"] = fates(r, 30, 0.2)
        cfg["fates_s2c"] = fates(r, 30, 0.2)
    if r.random() < 0.3:
        cfg["loss_pct"] = r.choice([2, 8])
        cfg["dup_pct"] = r.choice([0, 5])
    if r.random() < 0.3:
        cfg["jitter_us"] = r.choice([2000, 15000])
    if r.random() < 0.3:
        cfg["incoming"] = r.choice(["validate", "retry"])
    steps = [{"do": "connect", "n": 1},
             {"do": "app", "n": 1, "c": 0, "streams": [{"dir": r.choice([0, 1]), "size": r.choice([100, 5000]), "chunk": 1200, "finish": True}]},
             {"do": "run_until", "what": "connected", "max_us": 10000000}]
    for b in range(2, nclients + 1):
        steps.append({"do": "connect", "n": b})
        steps.append({"do": "app", "n": b, "c": 0, "read_max": 1 << 20, "ordered": True,
                      "streams": [{"dir": r.choice([0, 1]), "size": r.choice([20000, 80000, 200000]), "chunk": r.choice([1200, 5000]), "finish": True}
                                  for _ in range(r.choice([1, 2]))]})
    mig = 0
    for o in ops:
        steps.append({"do": "run", "us": r.choice([3000, 15000, 40000, 120000])})
        if o == "close_c":
            steps.append({"do": "op", "n": 1, "c": 0, "op": {"op": "close", "code": 7, "reason": "c"}})
        elif o == "close_s":
            steps.append({"do": "op", "n": 0, "c": 0, "peer_of": 1, "op": {"op": "close", "code": 8, "reason": "s"}})
        elif o == "reconnect":
            steps.append({"do": "run", "us": r.choice([1000, 400000, 2500000])})   # maybe past the drain period
            steps.append({"do": "connect", "n": 1})
        elif o == "migrate":
            mig += 1
            steps.append({"do": "migrate", "n": 1, "addr": [60 + mig, 7, 7000 + mig]})
            steps.append({"do": "op", "n": 1, "c": 0, "op": {"op": "ping"}})
        elif o == "err":
            # a frame of unknown type in an authenticated packet of the victim: connection error there only
            d = r.choice(["c2s", "s2c"])
            # (it replaces the packet's frames: appended behind a STREAM frame without a length field it
            # would become stream data instead of a frame)
            steps.append({"do": "mitm", "dir": d, "node": 1, "nth_short": 0, "mode": "replace",
                          "hex": (bytes([0x40, 0x7f]) + b"\x00" * 3).hex(), "count": 1})
            steps.append({"do": "op", "n": 1, "c": 0, "op": {"op": "ping"}})
            steps.append({"do": "op", "n": 0, "c": 0, "peer_of": 1, "op": {"op": "ping"}})
        elif o == "replay":
            steps.append({"do": "replay", "dir": r.choice(["c2s", "c2s", "s2c"]), "nth": r.choice([0, 1, 2, 5, -1, -3, -10]),
                          "delay": r.choice([0, 1000, 300000])})
        elif o == "garbage":
            steps.append({"do": "raw_short", "to": r.choice([0, 1]), "len": r.choice([25, 60, 1200]), "salt": r.randrange(1000)})
        elif o == "wait":
            steps.append({"do": "run", "us": r.choice([300000, 900000])})
    steps.append({"do": "run_until", "what": "apps", "max_us": 40000000})
    if r.random() < 0.6:
        # everybody leaves: afterwards every table of every endpoint must be empty
        for n in range(1, nclients + 1):
            for c in (0, 1):
                steps.append({"do": "op", "n": n, "c": c, "op": {"op": "close", "code": 1, "reason": "end"}})
        steps.append({"do": "run", "us": 30000000})
    else:
        steps.append({"do": "run", "us": 500000})
    return {"cfg": cfg, "steps": steps, "tag": {"family": "routing", "idx": idx, "ops": list(ops), "victims": [1]}}


def routing_siblings(r, idx):
    """Several connections from ONE client endpoint to the same server: one of them ends (or just moves
    on to another server-issued ID), later the server loses its state of a sibling and answers it with a
    stateless reset - which belongs to the sibling, whatever was removed for the one that ended."""
    cfg = base_cfg(r, clients=1)
    cfg["server_cid_len"] = r.choice([8, 8, 4, 20])
    cfg["client_cid_len"] = r.choice([8, 8, 4, 20, 0])
    cfg["cid_gen"] = r.choice(["det", "random"])
    t = {"idle_ms": 20000}
    cfg["server"] = dict(t)
    cfg["client"] = dict(t)
    k = r.choice([2, 3])
    steps = []
    for c in range(k):
        steps.append({"do": "connect", "n": 1})
        steps.append({"do": "run", "us": r.choice([0, 30000, 100000])})
    steps.append({"do": "run", "us": 300000})
    gone = r.randrange(k)
    kept = r.choice([c for c in range(k) if c != gone])
    who = r.choice([1, 1, 0])
    steps.append({"do": "op", "n": who, "c": gone, "op": {"op": "close", "code": 7, "reason": "c"}})
    steps.append({"do": "run", "us": r.choice([200000, 2000000, 5000000])})   # draining or long gone
    steps.append({"do": "reset_like", "to": 1, "c": kept, "token": "exact", "len": r.choice([40, 100, 1200])})
    steps.append({"do": "run", "us": 1000000})
    return {"cfg": cfg, "steps": steps, "tag": {"family": "routing-siblings", "idx": idx, "ops": [], "victims": [1]}}


def routing_random(r, idx):
    ops = [r.choice(["close_c", "close_s", "reconnect", "migrate", "err", "replay", "garbage", "wait"])
           for _ in range(r.choice([1, 2, 6, 8]))]
    return routing_script(r, idx, ops)
