"""C15: path migration keeps the connection and cannot be hijacked."""
import random

import props
import scen_c15
import verif as V

ASSUME = ["the attacker is off-path: it replays datagrams it has seen from addresses of its choice but never sees what is sent to those addresses",
          "timers are serviced at most cfg.late_us late; deadlines carry 5 ms slack",
          "packet eligibility (authenticated, new highest number, non-probing) is taken from the probe's counters and the independent decoder"]
VALS = [("migration", "MigrationTrace.tla", "MigrationTrace.cfg"), ("antiamp", "AntiAmpTrace.tla", "AntiAmpTrace.cfg"),
        # connection-ID management on the same runs (migration consumes and rotates IDs): extension spec
        ("cids", "CidTrace.tla", "CidTrace.cfg")]


def check_C15(tier, seed):
    r = random.Random(seed * 7919 + 15)
    quick = tier == "quick"
    seqs, gst = V.gen("SeqGen.tla", "SeqGen_mig4.cfg" if quick else "SeqGen_mig5.cfg", "C15")
    vecs, gst2 = V.gen("SeqGen.tla", "SeqGen_fates6.cfg", "C15f")
    n_seq = 350 if quick else 6000
    n_vec = 100 if quick else 1000
    n_rand = 100 if quick else 2000
    scripts = [scen_c15.migration_script(r, i, s) for i, s in enumerate(props.sample(seqs, n_seq, r))]
    for v in props.sample(vecs, n_vec, r):
        scripts.append(scen_c15.migration_script(r, len(scripts), [r.choice(["port", "ip", "spoof"]), r.choice(["wait", "back", "spoof"])], fate_vec=v))
    scripts += [scen_c15.migration_random(r, len(scripts) + i) for i in range(n_rand)]
    # a client that only acknowledges: its ACK-only packets from the new address are what the server follows
    scripts += [scen_c15.migration_ackonly(r, len(scripts) + i) for i in range(80 if tier == "quick" else 800)]
    mcs = [("Migration.tla", "MC_Migration.cfg"), ("CidFlow.tla", "MC_CidFlow.cfg")]
    return props.generic("C15", tier, seed, mcs, scripts, VALS, ASSUME,
                         extra_cov={"operation_sequences_enumerated_by_tlc": len(seqs), "fate_vectors_enumerated_by_tlc": len(vecs),
                                    "generator_states": gst})


def replay_C15(scripts):
    return props.generic("C15", "quick", 0, [], scripts, VALS, [], shards=1)
