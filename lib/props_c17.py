"""C17 - 0-RTT data is delivered once if accepted and vanishes if rejected.

MC   ZeroRtt.tla / MC_ZeroRtt.{tla,cfg} design model (TLC, exhaustive); MC_ZeroRtt_bug_*.cfg planted defects
GEN  SeqGen.tla / SeqGen_c17*.cfg     every fate vector over the first client datagrams (Initial, 0-RTT packets)
RUN  harness scripts (scen_c17)       real quinn-proto, toy crypto provider with session tickets
VAL  ZeroRttTrace.tla                 TLC validates every projected line
"""
import random

import props
import scen_c17
import verif as V

ASSUMPTIONS = [
    "toy crypto provider: the session ticket is the byte string of transport parameters a server configured with "
    "cfg.ticket_server really presents (taken from a scratch handshake); acceptance is the server's cfg.accept_early "
    "flag, signalled in its Finished message; no TLS anti-replay, no ticket age",
    "payload is the arithmetic progression (key+offset) mod 251 with one key per (epoch, stream): content that "
    "differs by a multiple of 251 positions is caught by the offset checks only",
    "the per-call credit prediction uses the per-stream unacknowledged byte counts of the verif probe to know the "
    "part of the send window in use; every other limit comes from the tapped transport parameters and the MAX_* "
    "frames of packets the client really processed (FrameStats deltas)",
    "proto level: a rejected early stream reports ClosedStream; the mapping to ZeroRttRejected in the async quinn "
    "crate (check_0rtt) is not exercised here",
]

VALS = [("zerortt", "ZeroRttTrace.tla", "ZeroRttTrace.cfg")]


def scripts_for(tier, seed):
    r = random.Random(seed * 7919 + 17)
    quick = tier == "quick"
    vecs, gst = V.gen("SeqGen.tla", "SeqGen_c17q.cfg" if quick else "SeqGen_c17.cfg", "C17")
    fams = ["accept", "reject", "reject-ref", "accept", "reject", "incompat"]
    scripts = []
    reps = 3 if quick else 4
    for v in vecs:
        for k in range(reps):
            scripts.append(scen_c17.zerortt_script(r, len(scripts), fate_vec=v, family=fams[(len(scripts)) % len(fams)]))
    n_rand = 1500 if quick else 20000
    for i in range(n_rand):
        scripts.append(scen_c17.zerortt_script(r, len(scripts)))
    return scripts, vecs, gst


def check_C17(tier, seed):
    scripts, vecs, gst = scripts_for(tier, seed)
    mcs = [("MC_ZeroRtt.tla", "MC_ZeroRtt.cfg")]
    if tier != "quick":
        mcs.append(("MC_ZeroRtt.tla", "MC_ZeroRtt2.cfg"))
    return props.generic("C17", tier, seed, mcs, scripts, VALS, ASSUMPTIONS,
                         extra_cov={"fate_vectors_enumerated_by_tlc": len(vecs), "generator_states": gst})


def findings_C17():
    """Replay the minimal scripts of the named deviations (lib/c17_findings.json); returns {name: reproduced}."""
    import json
    import os
    f = json.load(open(os.path.join(os.path.dirname(os.path.abspath(__file__)), "c17_findings.json")))
    names = list(f)
    res = replay_C17([f[n] for n in names])
    got = {}
    for k in res["known"]:
        fin = (k["script"] or {}).get("tag", {}).get("finding")
        got[fin] = got.get(fin, False) or fin in k["names"]
    return {n: got.get(n, False) for n in names}, res["violations"]


def replay_C17(scripts):
    return props.generic("C17", "quick", 0, [], scripts, VALS, [], shards=1)
