"""Script generators: map TLC-generated abstract behaviours and seeded choices to harness scripts."""
import random


def rng(seed, *salt):
    return random.Random(hash((seed,) + tuple(salt)) & 0xFFFFFFFF)


def base_cfg(r, **over):
    cfg = {"seed": r.randrange(1 << 30)}
    cfg.update(over)
    return cfg


def tcfg_menu(r):
    """A transport configuration drawn from a menu that keeps runs short."""
    t = {}
    if r.random() < 0.5:
        t["idle_ms"] = r.choice([1000, 3000, 10000])
    if r.random() < 0.3:
        t["keep_alive_ms"] = r.choice([300, 900])
    if r.random() < 0.3:
        t["cc"] = r.choice(["newreno", "bbr", "cubic", "fixed:12000", "fixed:2400"])
    if r.random() < 0.3:
        t["send_window"] = r.choice([1200, 5000, 100000])
    if r.random() < 0.3:
        t["recv_window"] = r.choice([1500, 10000, 100000])
    if r.random() < 0.3:
        t["stream_recv_window"] = r.choice([1000, 8000, 100000])
    if r.random() < 0.2:
        t["mtud"] = False
    if r.random() < 0.2:
        t["ack_freq"] = True
    if r.random() < 0.15:
        t["pad_to_mtu"] = True
    if r.random() < 0.2:
        t["gso"] = False
    return t


FATE_MENU = ["ok", "ok", "ok", "x", "dup:3000", "dup:40000", "delay:25000", "delay:120000"]


def fates(r, n, p_fault=0.35):
    return [r.choice(FATE_MENU[3:]) if r.random() < p_fault else "ok" for _ in range(n)]


def workload(r, n=1, c=0, big=False):
    streams = []
    for _ in range(r.choice([1, 1, 2, 3])):
        streams.append({"dir": r.choice([0, 0, 1]),
                        "size": r.choice([1, 100, 1200, 5000, 20000] + ([70000, 200000] if big else [])),
                        "chunk": r.choice([1, 7, 1200, 5000, 1 << 20]) if not big else r.choice([1200, 5000, 1 << 20]),
                        "finish": r.random() < 0.9})
    # byte-at-a-time writes only for small streams
    for s in streams:
        if s["chunk"] < 100 and s["size"] > 1500:
            s["chunk"] = 1200
    w = {"do": "app", "n": n, "c": c, "streams": streams,
         "read_max": r.choice([1, 13, 1 << 20]) if max(s["size"] for s in streams) <= 1200 else r.choice([997, 1 << 20]),
         "ordered": r.random() < 0.7}
    if w["ordered"] and r.random() < 0.3:
        w["unordered_after"] = r.choice([1, 2, 5])      # ordered reads first, unordered ones later
    w["maxsize"] = max(s["size"] for s in streams)
    if r.random() < 0.3:
        # the reading application answers on every bidirectional stream opened towards it
        w["echo"] = r.choice([1, 100, 1200, 5000] + ([70000] if big else []))
        w["echo_chunk"] = r.choice([1200, 5000, 1 << 20])
        w["maxsize"] = max(w["maxsize"], w["echo"])
    if r.random() < 0.3:
        w["dgrams"] = r.choice([1, 3, 10])
        w["dgram_size"] = r.choice([0, 1, 100, 1000])
    return w


# ------------------------------------------------------------------------------------------------
# C08

def lifecycle_from_hist(hist, r, idx):
    """One script from an abstract LifecyclePair behaviour (list of environment action names)."""
    idle = r.choice([1000, 2000])
    cfg = base_cfg(r, server={"idle_ms": idle}, client={"idle_ms": idle})
    if r.random() < 0.3:
        cfg["late_us"] = r.choice([1000, 20000])
    if r.random() < 0.3:
        cfg["server"]["keep_alive_ms"] = 300
    steps = [{"do": "connect", "n": 1}]
    gap = lambda: {"do": "run", "us": r.choice([0, 3000, 12000, 30000, 70000])}
    established = False
    for a in hist:
        if a == "establish":
            steps.append({"do": "run_until", "what": "connected", "max_us": 3000000})
            established = True
            if r.random() < 0.5:
                steps.append(workload(r))
                steps.append({"do": "run", "us": r.choice([0, 15000, 40000])})
            continue
        steps.append(gap())
        if a == "closeC":
            steps.append({"do": "op", "n": 1, "c": 0, "op": {"op": "close", "code": r.choice([0, 7, 77]), "reason": r.choice(["", "bye", "done"])}})
        elif a == "closeS":
            steps.append({"do": "op", "n": 0, "c": 0, "op": {"op": "close", "code": r.choice([0, 9, 99]), "reason": r.choice(["", "srv"])}})
        elif a == "dataC":
            steps.append({"do": "op", "n": 1, "c": 0, "op": {"op": "ping"}})
        elif a == "dataS":
            steps.append({"do": "op", "n": 0, "c": 0, "op": {"op": "ping"}})
        elif a == "lose":
            steps.append({"do": "drop_inflight", "k": r.randrange(8)})
        elif a == "resetC":
            steps.append({"do": "reset_like", "to": 1, "c": 0, "token": r.choice(["exact", "exact", "exact", "flip", "random"]), "len": r.choice([20, 21, 22, 40, 200])})
        elif a == "resetS":
            steps.append({"do": "reset_like", "to": 0, "c": 0, "token": r.choice(["exact", "exact", "exact", "flip", "random"]), "len": r.choice([20, 21, 22, 40, 200])})
        elif a == "idleC":
            steps.append({"do": "blackhole", "n": 0})
            steps.append({"do": "run", "us": idle * 1000 + 1500000})
        elif a == "idleS":
            steps.append({"do": "blackhole", "n": 1})
            steps.append({"do": "run", "us": idle * 1000 + 1500000})
    steps.append({"do": "run", "us": idle * 1000 + 4000000})
    return {"cfg": cfg, "steps": steps, "tag": {"family": "lifecycle-pair", "hist": hist, "idx": idx}}


def lifecycle_random(r, idx):
    """Fault-heavy transfers with a close / crash at a random moment."""
    idle = r.choice([1000, 3000])
    cfg = base_cfg(r, server=tcfg_menu(r), client=tcfg_menu(r))
    cfg["server"]["idle_ms"] = idle
    cfg["client"]["idle_ms"] = r.choice([idle, idle, 2 * idle])
    cfg["fates_c2s"] = fates(r, 14)
    cfg["fates_s2c"] = fates(r, 14)
    if r.random() < 0.3:
        cfg["loss_pct"] = r.choice([5, 20])
    if r.random() < 0.3:
        cfg["late_us"] = r.choice([1000, 50000])
    steps = [{"do": "connect", "n": 1}]
    if r.random() < 0.8:
        steps.append(workload(r, big=r.random() < 0.3))
    steps.append({"do": "run", "us": r.choice([0, 10000, 25000, 60000, 300000, 2000000])})
    end = r.choice(["closeC", "closeS", "both", "crashS", "crashC", "none", "resetC", "closeC_reset", "closeS_reset"])
    if end in ("closeC", "both"):
        steps.append({"do": "op", "n": 1, "c": 0, "op": {"op": "close", "code": 5, "reason": "c"}})
    if end == "both":
        steps.append({"do": "run", "us": r.choice([0, 5000, 20000])})
    if end in ("closeS", "both"):
        steps.append({"do": "op", "n": 0, "c": 0, "op": {"op": "close", "code": 6, "reason": "s"}})
    if end == "crashS":
        steps.append({"do": "blackhole", "n": 0})
    if end == "crashC":
        steps.append({"do": "blackhole", "n": 1})
    if end == "resetC":
        steps.append({"do": "reset_like", "to": 1, "c": 0, "token": "exact", "len": 60})
    if end in ("closeC_reset", "closeS_reset"):
        # a local close answered by a stateless reset while the close timer is running
        n = 1 if end == "closeC_reset" else 0
        steps.append({"do": "op", "n": n, "c": 0, "op": {"op": "close", "code": 9, "reason": "x" * r.choice([1, 128])}})
        steps.append({"do": "run", "us": r.choice([0, 1000, 15000])})
        steps.append({"do": "reset_like", "to": n, "c": 0, "token": "exact", "len": r.choice([40, 60])})
    steps.append({"do": "run", "us": 2 * idle * 1000 + 8000000})
    return {"cfg": cfg, "steps": steps, "tag": {"family": "lifecycle-random", "end": end, "idx": idx}}


def lifecycle_migrated(r, idx):
    """A connection whose client has changed its address (and whose server has followed: new
    connection IDs, the reset token registered for the new address) ends in one of the usual ways on
    a clean network: everything the endpoint filed for it, under either address, has to go."""
    idle = r.choice([2000, 3000])
    cfg = base_cfg(r, server={"idle_ms": idle}, client={"idle_ms": idle})
    steps = [{"do": "connect", "n": 1}, {"do": "run_until", "what": "connected", "max_us": 20000000}]
    if r.random() < 0.7:
        steps.append(workload(r, big=False))
    steps.append({"do": "run", "us": r.choice([100000, 300000])})
    for _ in range(r.choice([1, 1, 2])):
        steps.append({"do": "migrate", "n": 1, "addr": [r.choice([1, 3]), 1, r.choice([50001, 50009, 50017])]})
        steps.append({"do": "op", "n": 1, "c": 0, "op": {"op": "ping"}})
        steps.append({"do": "run", "us": r.choice([300000, 600000])})
    end = r.choice(["closeC", "closeS", "both", "crashC", "crashS", "none"])
    if end in ("closeC", "both"):
        steps.append({"do": "op", "n": 1, "c": 0, "op": {"op": "close", "code": 5, "reason": "c"}})
    if end in ("closeS", "both"):
        steps.append({"do": "op", "n": 0, "c": 0, "op": {"op": "close", "code": 6, "reason": "s"}})
    if end == "crashS":
        steps.append({"do": "blackhole", "n": 0})
    if end == "crashC":
        steps.append({"do": "blackhole", "n": 1})
    steps.append({"do": "run", "us": 2 * idle * 1000 + 8000000})
    return {"cfg": cfg, "steps": steps, "tag": {"family": "lifecycle-migrated", "end": end, "idx": idx}}


def lifecycle_closelost(r, idx):
    """One side closes while its peer is in the middle of a transfer, and the first datagram(s) that
    carry the close are lost; the peer's packets keep arriving, so the closer has to say it again."""
    idle = r.choice([2000, 3000])
    cfg = base_cfg(r, server={"idle_ms": idle}, client={"idle_ms": idle})
    closer = r.choice([0, 1])
    other = 1 - closer
    cfg["server" if other == 0 else "client"]["cc"] = r.choice(["fixed:12000", "newreno", "fixed:3600"])
    if r.random() < 0.3:
        cfg["server" if other == 0 else "client"]["keep_alive_ms"] = 300
    steps = [{"do": "connect", "n": 1}, {"do": "run_until", "what": "connected", "max_us": 20000000}, {"do": "run", "us": 100000},
             {"do": "app", "n": other, "c": 0, "streams": [{"dir": r.choice([0, 1]), "size": r.choice([30000, 200000]), "chunk": 1 << 20, "finish": True}],
              "read_max": 1 << 20, "ordered": True, "maxsize": 200000},
             {"do": "run", "us": r.choice([5000, 30000, 80000])},
             {"do": "fates", "dir": "s2c" if closer == 0 else "c2s", "list": ["x"] * r.choice([1, 1, 2, 4])},
             {"do": "op", "n": closer, "c": 0, "op": {"op": "close", "code": r.choice([3, 77]), "reason": "bye"}},
             {"do": "run", "us": 2 * idle * 1000 + 8000000}]
    return {"cfg": cfg, "steps": steps, "tag": {"family": "lifecycle-closelost", "idx": idx}}


def lifecycle_earlyclose(r, idx):
    """An application closes while the handshake is still under way: the server's flight is larger
    than one datagram and only part of it gets through, so either side may be left with Handshake keys
    as its best - whatever code and reason the application gave must not leave below 1-RTT protection,
    and the peer reports the generic application error."""
    idle = r.choice([2000, 3000])
    cfg = base_cfg(r, server={"idle_ms": idle}, client={"idle_ms": idle})
    cfg["sf_size"] = r.choice([1500, 3000, 6000, 9000])
    cfg["ch_size"] = r.choice([0, 0, 1500])
    cfg["latency_us"] = 10000
    menu = ["ok", "ok", "x", "x", "delay:40000", "delay:120000"]
    cfg["fates_s2c"] = ["ok"] * r.choice([0, 1, 2]) + [r.choice(menu) for _ in range(6)]
    cfg["fates_c2s"] = ["ok"] * r.choice([1, 2]) + [r.choice(menu) for _ in range(4)]
    closer = r.choice([0, 1, 1])
    steps = [{"do": "connect", "n": 1},
             {"do": "run", "us": r.choice([10001, 15000, 20001, 25000, 30001, 35000, 45000, 70000])},
             {"do": "op", "n": closer, "c": 0, "op": {"op": "close", "code": r.choice([42, 77]), "reason": "secret"}},
             {"do": "run", "us": 2 * idle * 1000 + 8000000}]
    return {"cfg": cfg, "steps": steps, "tag": {"family": "lifecycle-earlyclose", "idx": idx}}


# ------------------------------------------------------------------------------------------------
# C01

FATE_MAP = {"ok": "ok", "x": "x", "dup": "dup:3000", "delay": "delay:40000"}


def _skey(writer_is_server, sid, client_node=1):
    return (sid * 37 + client_node * 101 + (53 if writer_is_server else 0) + 7) % 251


def streamdata_oddsizes(r, idx):
    """Many individually flushed writes of arbitrary sizes on two streams under heavy loss: lost ranges
    of every length are retransmitted next to other frames, so every way of splitting a range occurs."""
    cfg = base_cfg(r, server={"idle_ms": 30000}, client={"idle_ms": 30000, "mtud": r.random() < 0.5})
    cfg["loss_pct"] = r.choice([10, 20, 30])
    cfg["dup_pct"] = r.choice([0, 5])
    if r.random() < 0.4:
        cfg["jitter_us"] = r.choice([3000, 30000])
    w = r.choice([0, 1])          # which side writes
    ids = [0 + w, 2 + w]          # first bidi and first uni stream of the writer
    steps = [{"do": "connect", "n": 1}, {"do": "app", "n": 1 - w, "c": 0, "streams": [], "read_max": r.choice([997, 1 << 20]),
                                        "ordered": True, "unordered_after": r.choice([0, 0, 1, 3])},
             {"do": "run_until", "what": "connected", "max_us": 20000000},
             {"do": "op", "n": w, "c": 0, "op": {"op": "open", "dir": 0}},
             {"do": "op", "n": w, "c": 0, "op": {"op": "open", "dir": 1}}]
    if r.random() < 0.6:
        steps.append({"do": "op", "n": w, "c": 0, "op": {"op": "set_priority", "id": ids[1], "prio": r.choice([1, 5])}})
    for _ in range(r.choice([10, 25, 50])):
        sid = r.choice(ids)
        steps.append({"do": "op", "n": w, "c": 0, "op": {"op": "write", "id": sid, "len": r.randrange(1, 1500),
                                                        "key": _skey(w == 0, sid), "off": "auto"}})
        if r.random() < 0.5:
            steps.append({"do": "run", "us": r.choice([100, 3000, 15000, 60000])})
    for sid in ids:
        steps.append({"do": "op", "n": w, "c": 0, "op": {"op": "finish", "id": sid}})
    steps.append({"do": "run", "us": 30000000})
    return {"cfg": cfg, "steps": steps, "tag": {"family": "streamdata-odd", "idx": idx, "fates": False}}


def streamdata_script(r, idx, fate_vec=None):
    if fate_vec is None and r.random() < 0.2:
        return streamdata_oddsizes(r, idx)
    cfg = base_cfg(r, server=tcfg_menu(r), client=tcfg_menu(r))
    # transfers must be able to finish: generous idle timeout
    cfg["server"]["idle_ms"] = 30000
    cfg["client"]["idle_ms"] = 30000
    cfg["server"].pop("keep_alive_ms", None)
    cfg["client"].pop("keep_alive_ms", None)
    if fate_vec is not None:
        half = len(fate_vec) // 2
        pre = r.choice([0, 0, 2, 4])  # let some handshake datagrams through first
        cfg["fates_c2s"] = ["ok"] * pre + [FATE_MAP[f] for f in fate_vec[:half]]
        cfg["fates_s2c"] = ["ok"] * pre + [FATE_MAP[f] for f in fate_vec[half:]]
    else:
        cfg["fates_c2s"] = fates(r, 20)
        cfg["fates_s2c"] = fates(r, 20)
        if r.random() < 0.5:
            cfg["loss_pct"] = r.choice([2, 10, 25])
            cfg["dup_pct"] = r.choice([0, 5, 15])
        if r.random() < 0.4:
            cfg["jitter_us"] = r.choice([2000, 30000])
    if r.random() < 0.3:
        cfg["max_datagrams"] = r.choice([1, 2, 3])
    if r.random() < 0.2:
        cfg["ce_mark"] = True
    steps = [{"do": "connect", "n": 1}]
    big = fate_vec is None and r.random() < 0.4
    steps.append(workload(r, big=big))
    if r.random() < 0.5:
        steps.append({"do": "run_until", "what": "connected", "max_us": 20000000})
        w = workload(r, n=0, c=0, big=big)
        steps.append(w)
    # the reader of a stream is the *other* side's application: tiny reads only for tiny streams
    apps = [s for s in steps if s.get("do") == "app"]
    if max(a["maxsize"] for a in apps) > 1200:
        for a in apps:
            if a["read_max"] < 900:
                a["read_max"] = r.choice([997, 1 << 20])
    # a few scripted disturbances while the transfer runs
    for _ in range(r.choice([0, 0, 1, 2, 3])):
        steps.append({"do": "run", "us": r.choice([1000, 8000, 21000, 60000])})
        k = r.random()
        if k < 0.35:
            steps.append({"do": "op", "n": r.choice([0, 1]), "c": 0, "op": {"op": "key_update"}})
        elif k < 0.5:
            steps.append({"do": "set", "key": "link_mtu", "v": r.choice([1200, 1300, 1452, 1500])})
        elif k < 0.65:
            steps.append({"do": "op", "n": r.choice([0, 1]), "c": 0,
                          "op": {"op": "stop", "id": r.choice([0, 2, 3]), "code": r.choice([1, 33])}})
        elif k < 0.8:
            steps.append({"do": "op", "n": r.choice([0, 1]), "c": 0,
                          "op": {"op": "reset", "id": r.choice([0, 1, 2, 3]), "code": r.choice([2, 44])}})
        else:
            steps.append({"do": "op", "n": r.choice([0, 1]), "c": 0, "op": {"op": "set_receive_window", "v": r.choice([1000, 20000, 1000000])}})
    steps.append({"do": "run_until", "what": "apps", "max_us": 60000000})
    steps.append({"do": "run", "us": 300000})
    return {"cfg": cfg, "steps": steps, "tag": {"family": "streamdata", "idx": idx,
                                                 "fates": fate_vec is not None}}


def streamdata_ackfreq(r, idx):
    """Stream transfers while the acknowledgement rhythm is renegotiated all the time: both sides use
    ACK_FREQUENCY with a requested delay that follows the RTT (a configured maximum above it); long
    window-limited transfers run while the path's latency jumps up and down, so that requests with new
    sequence numbers keep being sent and - when the latency drops - overtake older ones that share
    their packets with stream data."""
    cfg = base_cfg(r, server={"idle_ms": 30000}, client={"idle_ms": 30000})
    for side in ("server", "client"):
        cfg[side]["ack_freq"] = True
        cfg[side]["ack_freq_threshold"] = r.choice([0, 1, 2, 5])
        cfg[side]["ack_freq_max_delay_ms"] = r.choice([200, 400])
        cfg[side]["send_window"] = r.choice([3000, 6000, 12000])
        if r.random() < 0.3:
            cfg[side]["cc"] = r.choice(["newreno", "bbr", "cubic"])
    if r.random() < 0.6:
        return _ackfreq_sparse(r, idx, cfg)
    cfg["latency_us"] = r.choice([5000, 10000, 30000])
    # neighbouring datagrams swap places (within the reordering threshold: nothing is retransmitted)
    cfg["jitter_us"] = r.choice([3000, 10000, 25000])
    cfg["fates_c2s"] = fates(r, 20, 0.1)
    cfg["fates_s2c"] = fates(r, 20, 0.1)
    steps = [{"do": "connect", "n": 1}, {"do": "run_until", "what": "connected", "max_us": 20000000}]
    for n in (1, 0):
        w = workload(r, n=n, big=True)
        for st in w["streams"]:
            st["size"] = r.choice([20000, 70000, 150000])
            st["chunk"] = r.choice([700, 1200, 5000])
        w["read_max"] = 1 << 20
        steps.append(w)
    for k in range(r.choice([4, 6, 9])):
        steps.append({"do": "run", "us": r.choice([100000, 250000, 500000])})
        steps.append({"do": "set", "key": "latency_us", "v": r.choice([5000, 20000, 50000, 110000, 180000])})
    steps.append({"do": "run_until", "what": "apps", "max_us": 120000000})
    steps.append({"do": "run", "us": 300000})
    return {"cfg": cfg, "steps": steps, "tag": {"family": "streamdata-ackfreq", "idx": idx, "fates": False}}


def _ackfreq_sparse(r, idx, cfg):
    """A quiet sender on a path whose latency has just jumped: every acknowledgement moves the RTT
    estimate and the next packet carries a new ACK_FREQUENCY request next to a little stream data; single
    datagrams are held back for more than an RTT without being declared lost (nothing later is
    acknowledged in between), so an older request arrives after a newer one - with first-transmission
    data behind it."""
    for side in ("server", "client"):
        cfg[side].pop("send_window", None)
    cfg["latency_us"] = r.choice([5000, 10000])
    steps = [{"do": "connect", "n": 1}, {"do": "run_until", "what": "connected", "max_us": 20000000},
             {"do": "run", "us": r.choice([0, 50000])}]
    lat = r.choice([60000, 100000, 150000])
    steps.append({"do": "set", "key": "latency_us", "v": lat})
    late = "delay:%d" % r.choice([lat, lat + lat // 2, 2 * lat])
    for k in range(r.choice([8, 14, 22])):
        n = r.choice([1, 1, 0])
        w = {"do": "app", "n": n, "c": 0, "streams": [{"dir": r.choice([0, 1]), "size": r.choice([1, 50, 400, 1100]), "chunk": 1 << 20, "finish": True}],
             "read_max": 1 << 20, "ordered": True, "maxsize": 1100}
        steps.append(w)
        steps.append({"do": "fates", "dir": "c2s" if n == 1 else "s2c", "list": [late if r.random() < 0.45 else "ok" for _ in range(2)]})
        steps.append({"do": "run", "us": r.choice([lat // 2, lat, 2 * lat, 3 * lat])})
        if r.random() < 0.15:
            lat = r.choice([20000, 60000, 100000, 150000])
            steps.append({"do": "set", "key": "latency_us", "v": lat})
    steps.append({"do": "run_until", "what": "apps", "max_us": 60000000})
    steps.append({"do": "run", "us": 300000})
    return {"cfg": cfg, "steps": steps, "tag": {"family": "streamdata-ackfreq-sparse", "idx": idx, "fates": False}}


def streamdata_zerortt(r, idx):
    """Stream data written before the handshake completes by a resuming client: it leaves in 0-RTT
    packets that the server accepts or rejects, possibly after a Retry that makes the client start
    over - whatever happens to those packets, every byte (and the end of the streams already
    finished) has to arrive once."""
    cfg = base_cfg(r, server=tcfg_menu(r), client=tcfg_menu(r))
    cfg["server"]["idle_ms"] = 30000
    cfg["client"]["idle_ms"] = 30000
    cfg["server"].pop("keep_alive_ms", None)
    cfg["client"].pop("keep_alive_ms", None)
    cfg["ticket"] = True
    # (accepted: after a rejection the early streams are gone and their numbers are used again - C17's subject)
    cfg["accept_early"] = True
    cfg["incoming"] = r.choice(["accept", "retry", "retry"])
    cfg["new_tokens"] = 0
    cfg["fates_c2s"] = fates(r, 12, r.choice([0.0, 0.2, 0.4]))
    cfg["fates_s2c"] = fates(r, 12, r.choice([0.0, 0.2, 0.4]))
    steps = [{"do": "connect", "n": 1}]
    nst = r.choice([1, 2, 3])
    for i in range(nst):
        steps.append({"do": "op", "n": 1, "c": 0, "op": {"op": "open", "dir": 0}})
    for i in range(nst):
        sid = 4 * i
        steps.append({"do": "op", "n": 1, "c": 0, "op": {"op": "write", "id": sid, "len": r.choice([1, 100, 700, 3000, 9000]),
                                                        "key": _skey(False, sid), "off": "auto"}})
        if r.random() < 0.7:
            steps.append({"do": "op", "n": 1, "c": 0, "op": {"op": "finish", "id": sid}})
    if r.random() < 0.5:
        # let the early flight leave (and be answered) before anything else is written
        steps.append({"do": "run", "us": r.choice([1000, 15000, 40000])})
    steps.append(workload(r))
    steps.append({"do": "run_until", "what": "apps", "max_us": 60000000})
    steps.append({"do": "run", "us": 2000000})
    return {"cfg": cfg, "steps": steps, "tag": {"family": "streamdata-0rtt", "idx": idx, "fates": False}}


# ------------------------------------------------------------------------------------------------
# C07

def antiamp_retry_move(r, idx):
    """A Retry token used from another address: the client's Initial is answered with a Retry, and
    while that is on its way the client's address changes - to another host with the same port, the
    same host with another port, or both (an attacker who got a token at its own address and spoofs a
    victim's).  The token proves nothing about the new address: the large server flight must stay
    within three times what arrived from there."""
    cfg = base_cfg(r, server={"idle_ms": 8000}, client={"idle_ms": 8000})
    cfg["incoming"] = "retry"
    cfg["sf_size"] = r.choice([4000, 8000, 12000])
    cfg["max_datagrams"] = r.choice([1, 2, 10])
    cfg["latency_us"] = 10000
    cfg["keep_old_addrs"] = True       # the Retry still reaches the client at the address it was sent to
    steps = [{"do": "connect", "n": 1},
             {"do": "run", "us": r.choice([10001, 12000, 19000])},       # the Retry is in flight
             {"do": "migrate", "n": 1, "addr": r.choice([[3, 1, 53840], [1, 1, 50009], [3, 1, 50009], [1, 2, 53840]])}]
    if r.random() < 0.5:
        # the victim never answers
        steps.append({"do": "run", "us": 10000})
        steps.append({"do": "blackhole", "n": 1})
    steps.append({"do": "run", "us": 6000000})
    return {"cfg": cfg, "steps": steps, "tag": {"family": "antiamp-retry-move", "idx": idx}}


def antiamp_script(r, idx, fate_vec=None):
    fam = r.choice(["handshake", "handshake", "handshake", "vanish", "migrate", "resets", "shortinit", "retry"])
    cfg = base_cfg(r, server=tcfg_menu(r), client=tcfg_menu(r))
    cfg["server"]["idle_ms"] = 8000
    cfg["client"]["idle_ms"] = 8000
    cfg["sf_size"] = r.choice([0, 1000, 2500, 4000, 8000, 12000])
    cfg["ch_size"] = r.choice([0, 0, 1500, 3000])
    cfg["server"]["initial_mtu"] = r.choice([1200, 1200, 1452])
    if cfg["server"]["initial_mtu"] > 1200:
        cfg["server"]["min_mtu"] = 1200
    cfg["max_datagrams"] = r.choice([1, 2, 10])
    if fate_vec is not None:
        cfg["fates_c2s"] = ["ok"] + [FATE_MAP[f] for f in fate_vec]
        cfg["fates_s2c"] = fates(r, 6, 0.3)
    else:
        cfg["fates_c2s"] = fates(r, 10, 0.4)
        cfg["fates_s2c"] = fates(r, 10, 0.3)
    steps = [{"do": "connect", "n": 1}]
    if fam == "retry":
        cfg["incoming"] = r.choice(["retry", "validate"])
    if fam == "handshake" or fam == "retry":
        steps.append(workload(r))
        steps.append({"do": "run_until", "what": "apps", "max_us": 20000000})
    elif fam == "vanish":
        # the client sends its first flight(s) and disappears: only server timers fire
        steps.append({"do": "run", "us": r.choice([0, 5000, 15000, 30000])})
        steps.append({"do": "blackhole", "n": 1})
        steps.append({"do": "run", "us": 12000000})
    elif fam == "migrate":
        steps.append(workload(r, big=True))
        steps.append({"do": "run_until", "what": "connected", "max_us": 10000000})
        if r.random() < 0.5:
            steps.append(workload(r, n=0, c=0, big=True))
        for _ in range(r.choice([1, 1, 2, 3])):
            steps.append({"do": "run", "us": r.choice([2000, 11000, 35000, 90000])})
            k = r.random()
            if k < 0.6:
                steps.append({"do": "migrate", "n": 1, "addr": [r.choice([1, 1, 3]), r.choice([1, 2]), r.choice([50000, 50001, 7000])]})
            else:
                # attacker replays a genuine client datagram from another address
                steps.append({"do": "replay", "dir": "c2s", "nth": -1 - r.randrange(3), "from": [9, r.choice([1, 2]), 9999]})
        steps.append({"do": "run_until", "what": "apps", "max_us": 30000000})
    elif fam == "resets":
        cfg["min_reset_interval_ms"] = r.choice([20, 20, 5, 100])
        steps.append({"do": "run_until", "what": "connected", "max_us": 10000000})
        for _ in range(r.choice([3, 8, 20])):
            steps.append({"do": "run", "us": r.choice([0, 1000, 4999, 5000, 19999, 20000, 20001, 100000])})
            steps.append({"do": "raw_short", "to": r.choice([0, 0, 1]), "len": r.choice([17, 20, 21, 22, 100, 1200, 1500] + list(range(23, 64))), "salt": r.randrange(1 << 20)})
    elif fam == "shortinit":
        if r.random() < 0.5:
            cfg["fates_c2s"] = ["shrink:%d" % r.choice([200, 600, 1100, 1199, 1199, 1200])] + cfg["fates_c2s"][1:]
        else:
            # hand-made version-1 Initials of every shape in undersized datagrams (instead of the
            # genuine first flight): ID lengths from 0 to 20, with and without token
            steps = []
            for _ in range(r.choice([1, 3, 6])):
                dl, sl = r.choice([0, 1, 7, 8, 16, 20]), r.choice([0, 4, 8, 20])
                tok = bytes(r.randrange(256) for _ in range(r.choice([0, 0, 5, 40])))
                total = r.choice([29, 40, 100, 600, 1199])
                hdr = bytes([0xc0 | r.choice([0, 1, 2, 3]) | r.choice([0, 0x0c])]) + b"\x00\x00\x00\x01" + bytes([dl]) \
                    + bytes(r.randrange(256) for _ in range(dl)) + bytes([sl]) + bytes(r.randrange(256) for _ in range(sl)) \
                    + _var(len(tok)) + tok
                rest = max(0, total - len(hdr) - 2)
                data = hdr + _var(rest if rest >= 64 else rest + 64)[:2].rjust(2, b"\x40") + bytes(rest)
                steps.append({"do": "raw", "to": 0, "hex": data[:max(total, len(hdr) + 2)].hex()})
                steps.append({"do": "run", "us": r.choice([0, 1000, 50000])})
        steps.append({"do": "run", "us": 3000000})
    steps.append({"do": "run", "us": 1000000})
    return {"cfg": cfg, "steps": steps, "tag": {"family": "antiamp-" + fam, "idx": idx}}


# ------------------------------------------------------------------------------------------------
# C04

CORRUPT_MENU = ["corrupt:0:1", "corrupt:0:64", "corrupt:0:8", "corrupt:0:16", "corrupt:0:4", "corrupt:0:12", "corrupt:0:24", "corrupt:1:255", "corrupt:5:8", "corrupt:9:1", "corrupt:20:4",
                "corrupt:-1:1", "corrupt:-17:128", "corrupt:-30:2", "corrupt:600:16",
                "trunc:1", "trunc:5", "trunc:20", "trunc:21", "trunc:100", "trunc:600", "trunc:1199",
                "ext:1", "ext:16", "ext:100"]
DUP_MENU = ["dup:0", "dup:1000", "dup:30000", "dup:400000", "dup:2500000"]


def auth_fates(r, n):
    out = []
    for _ in range(n):
        k = r.random()
        if k < 0.45:
            out.append("ok")
        elif k < 0.7:
            out.append(r.choice(DUP_MENU))
        elif k < 0.9:
            out.append(r.choice(CORRUPT_MENU))
        else:
            out.append(r.choice(["x", "delay:60000"]))
    return out


def auth_script(r, idx, fate_vec=None):
    fam = r.choice(["faults", "faults", "replay", "replay", "reset", "splice", "vn", "retry", "spoof"])
    cfg = base_cfg(r, server=tcfg_menu(r), client=tcfg_menu(r))
    cfg["server"]["idle_ms"] = 20000
    cfg["client"]["idle_ms"] = 20000
    if fate_vec is not None:
        m = {"ok": "ok", "x": r.choice(CORRUPT_MENU), "dup": r.choice(DUP_MENU), "delay": "delay:50000"}
        half = len(fate_vec) // 2
        cfg["fates_c2s"] = [m[f] for f in fate_vec[:half]] + auth_fates(r, 10)
        cfg["fates_s2c"] = [m[f] for f in fate_vec[half:]] + auth_fates(r, 10)
    else:
        cfg["fates_c2s"] = auth_fates(r, 24)
        cfg["fates_s2c"] = auth_fates(r, 24)
    steps = [{"do": "connect", "n": 1}]
    if fam == "splice":
        cfg["clients"] = 2
        steps.append({"do": "connect", "n": 2})
        steps.append({"do": "app", "n": 2, "c": 0, "streams": [{"dir": 0, "size": 3000, "chunk": 1000}]})
    if fam == "retry":
        cfg["incoming"] = r.choice(["retry", "validate"])
    if fam == "spoof" and r.random() < 0.5:
        cfg["migration"] = False
    if fam == "vn" and r.random() < 0.5:
        # a Version Negotiation packet that arrives after the client followed a Retry but before the
        # server's first Initial: the Retry was a server packet, so the client must ignore it
        # (round-4 mutant C04/r4m1: the guard looked at numbered packets only)
        cfg["incoming"] = r.choice(["retry", "validate"])
        cfg["latency_us"] = 10000
        cfg["fates_c2s"] = ["ok"] * 4 + cfg["fates_c2s"]
        cfg["fates_s2c"] = ["ok"] * 4 + cfg["fates_s2c"]
        steps.append({"do": "run", "us": r.choice([21000, 25000, 32000, 38000])})
        steps.append({"do": "vn", "to": 1, "own": r.random() < 0.3})
    steps.append(workload(r, big=r.random() < 0.2))
    for _ in range(r.choice([1, 2, 4, 6])):
        steps.append({"do": "run", "us": r.choice([0, 3000, 12000, 30000, 100000, 400000])})
        if r.random() < 0.25:
            steps.append({"do": "op", "n": r.choice([0, 1]), "c": 0, "op": {"op": "key_update"}})
        if fam in ("replay", "faults", "retry"):
            steps.append({"do": "replay", "dir": r.choice(["c2s", "s2c"]), "nth": r.choice([0, 0, 1, 2, 3, -1, -2, -5]), "delay": r.choice([0, 0, 20000])})
        elif fam == "spoof":
            steps.append({"do": "replay", "dir": r.choice(["c2s", "s2c", "s2c"]), "nth": r.choice([0, 1, -1, -2, -3]),
                          "from": [r.choice([1, 7]), r.choice([1, 2]), r.choice([50000, 4433, 1234])]})
        elif fam == "reset":
            steps.append({"do": "reset_like", "to": r.choice([0, 1]), "c": 0, "token": r.choice(["exact", "flip", "flip", "random"]),
                          "len": r.choice([16, 20, 21, 22, 38, 100, 1200])})
        elif fam == "splice":
            a = r.choice([1, 2])
            steps.append({"do": "splice", "from_n": a, "to_n": 3 - a, "nth": r.choice([-1, -2, 0, 1])})
        elif fam == "vn":
            steps.append({"do": "vn", "to": 1, "own": r.random() < 0.3})
    if r.random() < 0.4:
        steps.append({"do": "op", "n": r.choice([0, 1]), "c": 0, "op": {"op": "close", "code": 3, "reason": "x"}})
        steps.append({"do": "run", "us": 20000})
        steps.append({"do": "replay", "dir": r.choice(["c2s", "s2c"]), "nth": r.choice([0, 1, -1, -3])})
    steps.append({"do": "run_until", "what": "apps", "max_us": 20000000})
    steps.append({"do": "run", "us": 1000000})
    # the replay of the connection-creating Initial after everything else
    if r.random() < 0.5:
        steps.append({"do": "replay", "dir": "c2s", "nth": 0})
        steps.append({"do": "run", "us": 200000})
    return {"cfg": cfg, "steps": steps, "tag": {"family": "auth-" + fam, "idx": idx}}


def auth_resume_script(r, idx):
    """A resuming client (session ticket, remembered transport parameters - among them the reset token of
    a connection ID of the EARLIER connection) receives, while its new handshake is under way, datagrams
    that end in that old token or in a damaged copy: nothing but the token issued for the connection
    ID in use may end the connection."""
    cfg = base_cfg(r, server={"idle_ms": 20000}, client={"idle_ms": 20000})
    cfg["ticket"] = True
    cfg["accept_early"] = r.random() < 0.6
    cfg["new_tokens"] = 0
    cfg["latency_us"] = r.choice([5000, 20000])
    steps = [{"do": "connect", "n": 1}]
    if r.random() < 0.5:
        steps.append({"do": "op", "n": 1, "c": 0, "op": {"op": "open", "dir": 0}})
        steps.append({"do": "op", "n": 1, "c": 0, "op": {"op": "write", "id": 0, "len": 300, "key": _skey(False, 0), "off": "auto"}})
    for _ in range(r.choice([1, 2, 3])):
        steps.append({"do": "run", "us": r.choice([0, 1000, 6000, 15000, 30000, 80000])})
        steps.append({"do": "reset_like", "to": 1, "c": 0, "token": r.choice(["ticket", "ticket", "flip"]), "len": r.choice([60, 100, 1200])})
    steps.append(workload(r))
    steps.append({"do": "run_until", "what": "apps", "max_us": 20000000})
    steps.append({"do": "run", "us": 1000000})
    return {"cfg": cfg, "steps": steps, "tag": {"family": "auth-resume", "idx": idx}}


# ------------------------------------------------------------------------------------------------
# C05

LIMITS = [0, 1, 63, 64, 65, 1000, 1200, 16383, 16384, 16385, 100000]


def flow_script(r, idx, fate_vec=None):
    cfg = base_cfg(r, server=tcfg_menu(r), client=tcfg_menu(r))
    for side in ("server", "client"):
        t = cfg[side]
        t["idle_ms"] = 20000
        t.pop("keep_alive_ms", None)
        if r.random() < 0.6:
            t["recv_window"] = r.choice(LIMITS[1:])
        if r.random() < 0.6:
            t["stream_recv_window"] = r.choice(LIMITS[1:])
        if r.random() < 0.5:
            t["send_window"] = r.choice([1, 100, 1200, 5000, 50000])
        if r.random() < 0.5:
            t["max_bidi"] = r.choice([0, 1, 2, 3, 100])
        if r.random() < 0.5:
            t["max_uni"] = r.choice([0, 1, 2, 3, 100])
    if fate_vec is not None:
        half = len(fate_vec) // 2
        pre = r.choice([2, 4, 6])
        cfg["fates_c2s"] = ["ok"] * pre + [FATE_MAP[f] for f in fate_vec[:half]]
        cfg["fates_s2c"] = ["ok"] * pre + [FATE_MAP[f] for f in fate_vec[half:]]
    else:
        cfg["fates_c2s"] = fates(r, 24)
        cfg["fates_s2c"] = fates(r, 24)
        if r.random() < 0.3:
            cfg["loss_pct"] = 10
            cfg["dup_pct"] = 10
    # what a side advertises may be lower than what it enforces, and need not be the same for the
    # three kinds of stream (a non-quinn peer): the sender must obey exactly what was advertised
    for side in ("server", "client"):
        if r.random() < 0.35:
            real = cfg[side].get("stream_recv_window", 1250000)
            vals = r.sample([64, 300, 1000, 5000, 16000], 3)
            edits = [[pid, min(v, real)] for pid, v in zip((5, 6, 7), vals)]
            if r.random() < 0.5:
                edits.append([4, min(r.choice([100, 1000, 10000]), cfg[side].get("recv_window", 10 ** 9))])
            cfg[side + "_tp"] = edits
    steps = [{"do": "connect", "n": 1}]

    tiny = any(cfg[x].get(k, 10 ** 9) < 1000 for x in ("server", "client")
               for k in ("recv_window", "stream_recv_window", "send_window")) or "server_tp" in cfg or "client_tp" in cfg

    def wl(n):
        streams = []
        for _ in range(r.choice([1, 2, 4, 6])):
            size = r.choice([1, 63, 64, 65, 130, 300] if tiny else [1, 63, 64, 65, 500, 1200, 3000, 16384, 20000])
            streams.append({"dir": r.choice([0, 1]), "size": size,
                            "chunk": r.choice([1, 64, 1000, 1 << 20]) if size <= 3000 else r.choice([1000, 5000, 1 << 20]),
                            "finish": r.random() < 0.9})
        a = {"do": "app", "n": n, "c": 0, "streams": streams, "read_max": r.choice([100, 1 << 20]),
             "ordered": True, "maxsize": max(s["size"] for s in streams)}
        if r.random() < 0.4:
            a["echo"] = r.choice([1, 64, 65, 300] if tiny else [1, 64, 300, 3000, 16384])
            a["echo_chunk"] = r.choice([64, 1000, 1 << 20])
        return a

    steps.append(wl(1))
    steps.append({"do": "run_until", "what": "connected", "max_us": 20000000})
    if r.random() < 0.6:
        steps.append(wl(0))
    for _ in range(r.choice([0, 1, 2, 4])):
        steps.append({"do": "run", "us": r.choice([5000, 20000, 50000, 200000])})
        side = r.choice([0, 1])
        k = r.random()
        if k < 0.3:
            steps.append({"do": "op", "n": side, "c": 0, "op": {"op": "set_send_window", "v": r.choice([0, 1, 100, 1200, 100000])}})
        elif k < 0.6:
            steps.append({"do": "op", "n": side, "c": 0, "op": {"op": "set_receive_window", "v": r.choice(LIMITS)}})
        elif k < 0.85:
            steps.append({"do": "op", "n": side, "c": 0, "op": {"op": "set_max_streams", "dir": r.choice([0, 1]), "v": r.choice([0, 1, 2, 5, 100])}})
        else:
            steps.append({"do": "op", "n": side, "c": 0, "op": {"op": "reset", "id": r.choice([0, 1, 2, 3, 4]), "code": 5}})
    steps.append({"do": "run_until", "what": "apps", "max_us": 40000000})
    steps.append({"do": "run", "us": 300000})
    return {"cfg": cfg, "steps": steps, "tag": {"family": "flow", "idx": idx}}


# ------------------------------------------------------------------------------------------------
# C12

CC_MENU = ["newreno", "cubic", "bbr", "fixed:2400", "fixed:3000", "fixed:12000", "fixed:1000000",
           "flip:2400:12000", "flip:1200:50000:3000"]


def recovery_script(r, idx, fate_vec=None):
    clean = fate_vec is None and r.random() < 0.35
    cfg = base_cfg(r, server=tcfg_menu(r), client=tcfg_menu(r))
    for side in ("server", "client"):
        cfg[side]["idle_ms"] = 30000
        cfg[side].pop("keep_alive_ms", None)
        cfg[side]["cc"] = r.choice(CC_MENU)
        if r.random() < 0.2:
            # a configured sending rate: the pacer is the limit, not the window
            cfg[side]["max_bytes_per_sec"] = r.choice([20000, 50000, 200000, 1000000, 5000000])
        if r.random() < 0.25:
            cfg[side]["ack_freq"] = True
            cfg[side]["ack_freq_threshold"] = r.choice([0, 1, 2, 5, 20])
            if r.random() < 0.5:
                cfg[side]["ack_freq_max_delay_ms"] = r.choice([1, 3, 10, 60, 200])
    if clean:
        cfg["latency_us"] = r.choice([1000, 10000, 80000])
    elif fate_vec is not None:
        half = len(fate_vec) // 2
        pre = r.choice([0, 3, 6])
        cfg["fates_c2s"] = ["ok"] * pre + [FATE_MAP[f] for f in fate_vec[:half]]
        cfg["fates_s2c"] = ["ok"] * pre + [FATE_MAP[f] for f in fate_vec[half:]]
    else:
        cfg["fates_c2s"] = fates(r, 30)
        cfg["fates_s2c"] = fates(r, 30)
        if r.random() < 0.5:
            cfg["loss_pct"] = r.choice([3, 10, 30])
            cfg["dup_pct"] = r.choice([0, 5])
        if r.random() < 0.3:
            cfg["jitter_us"] = r.choice([3000, 25000])
        if r.random() < 0.2:
            cfg["ce_mark"] = True
        if r.random() < 0.2:
            cfg["incoming"] = "retry"
        if r.random() < 0.4:
            # what the network does to the ECN field: congestion experienced, mark stripped, rewritten
            # to ECT(1) - for single datagrams, or for everything from some point on (a bleaching path)
            for k in ("fates_c2s", "fates_s2c"):
                fl = cfg[k] + ["ok"] * 50
                if r.random() < 0.25:
                    start = r.randrange(0, 40)
                    kind = r.choice(["bleach", "bleach", "ect1", "ce"])
                    fl = [kind if (i >= start and f == "ok") else f for i, f in enumerate(fl)] + [kind] * 300
                else:
                    p = r.choice([0.05, 0.2, 0.5])
                    fl = [r.choice(["ce", "ce", "bleach", "ect1"]) if (f == "ok" and r.random() < p) else f for f in fl]
                cfg[k] = fl
    if r.random() < 0.3:
        cfg["max_datagrams"] = r.choice([1, 2, 4])
    if r.random() < 0.15:
        # a resumed client that sends early data (accepted or rejected), possibly across a Retry:
        # what happens to the 0-RTT packets must leave the in-flight accounting balanced
        cfg["ticket"] = True
        cfg["accept_early"] = r.random() < 0.6
        cfg["incoming"] = r.choice(["accept", "retry", "retry"])
        cfg["new_tokens"] = 0
    steps = [{"do": "connect", "n": 1}]
    if cfg.get("ticket"):
        # written before the handshake completes: goes out in 0-RTT packets
        steps.append({"do": "op", "n": 1, "c": 0, "op": {"op": "open", "dir": 0}})
        # (some of it far larger than the initial window: early data is congestion controlled too)
        steps.append({"do": "op", "n": 1, "c": 0, "op": {"op": "write", "id": 0, "len": r.choice([100, 700, 3000, 30000, 150000]),
                                                        "key": _skey(False, 0), "off": "auto"}})
        if r.random() < 0.5:
            steps.append({"do": "op", "n": 1, "c": 0, "op": {"op": "finish", "id": 0}})
    steps.append(workload(r, big=r.random() < 0.5))
    if r.random() < 0.5:
        steps.append({"do": "run_until", "what": "connected", "max_us": 20000000})
        steps.append(workload(r, n=0, c=0, big=r.random() < 0.5))
    apps = [s for s in steps if s.get("do") == "app"]
    if max(a["maxsize"] for a in apps) > 1200:
        for a in apps:
            if a["read_max"] < 900:
                a["read_max"] = 1 << 20
    if not clean:
        for _ in range(r.choice([0, 0, 1, 2])):
            steps.append({"do": "run", "us": r.choice([2000, 15000, 50000])})
            k = r.random()
            if k < 0.4:
                steps.append({"do": "op", "n": r.choice([0, 1]), "c": 0, "op": {"op": "key_update"}})
            elif k < 0.7:
                steps.append({"do": "migrate", "n": 1, "addr": [r.choice([1, 3]), 1, r.choice([50000, 50009])]})
            else:
                steps.append({"do": "set", "key": "link_mtu", "v": r.choice([1200, 1350, 1500])})
    steps.append({"do": "run_until", "what": "apps", "max_us": 60000000})
    steps.append({"do": "run", "us": 2000000})
    return {"cfg": cfg, "steps": steps, "tag": {"family": "recovery-clean" if clean else "recovery", "idx": idx}}


def ackdelay_script(r, idx, fate_vec=None):
    """A quiet client that only acknowledges: the server's flight is long, parts of it are delayed, lost
    or repeated, and afterwards the server sends a little now and then - every acknowledgement the
    client owes (immediately for Initial/Handshake packets, within max_ack_delay for 1-RTT packets)
    has to come from its own timers, interleaved with the others."""
    cfg = base_cfg(r, server={"idle_ms": 30000}, client={"idle_ms": 30000, "mtud": False})
    cfg["sf_size"] = r.choice([1500, 3000, 5000])
    cfg["new_tokens"] = r.choice([0, 2])
    if r.random() < 0.4:
        # the server asks for another acknowledgement rhythm (ACK_FREQUENCY): threshold, delay
        cfg["server"]["ack_freq"] = True
        cfg["server"]["ack_freq_threshold"] = r.choice([0, 1, 3, 10])
        if r.random() < 0.6:
            cfg["server"]["ack_freq_max_delay_ms"] = r.choice([1, 3, 10, 60, 200])
    if fate_vec is not None:
        half = len(fate_vec) // 2
        cfg["fates_c2s"] = ["ok"] * r.choice([0, 1, 2]) + [FATE_MAP[f] for f in fate_vec[:half]]
        cfg["fates_s2c"] = ["ok"] * r.choice([0, 1, 2]) + [FATE_MAP[f] for f in fate_vec[half:]]
    else:
        menu = ["ok", "ok", "ok", "x", "delay:10000", "delay:25000", "delay:40000", "delay:120000", "dup:3000", "dup:40000"]
        cfg["fates_c2s"] = [r.choice(menu) for _ in range(8)]
        cfg["fates_s2c"] = [r.choice(menu) for _ in range(10)]
        if r.random() < 0.6:
            # the tail of the server's first flight (Handshake data and the first 1-RTT packet in one
            # datagram) is late: it arrives when the client has long sent what it had to say
            k = {1500: 2, 3000: 3, 5000: 5}[cfg["sf_size"]]
            late = r.choice(["delay:40000", "delay:120000", "delay:120000", "delay:300000"])
            cfg["fates_s2c"] = ["ok"] * (k - 1) + [late] + [r.choice(["ok", "ok", "x", "delay:25000"]) for _ in range(6)]
            if r.random() < 0.5:
                cfg["fates_c2s"] = [r.choice(["ok", "ok", "ok", "x"]) for _ in range(6)]
    steps = [{"do": "connect", "n": 1},
             {"do": "run_until", "what": "connected", "max_us": 20000000}]
    sid = 3
    for k in range(r.choice([1, 2, 4])):
        steps.append({"do": "op", "n": 0, "c": 0, "op": {"op": "open", "dir": 1}})
        steps.append({"do": "op", "n": 0, "c": 0, "op": {"op": "write", "id": sid, "len": r.choice([1, 300, 1100, 2500]),
                                                        "key": _skey(True, sid), "off": 0}})
        steps.append({"do": "run", "us": r.choice([3000, 12000, 30000, 70000, 200000])})
        sid += 4
    steps.append({"do": "run", "us": 1500000})
    return {"cfg": cfg, "steps": steps, "tag": {"family": "ackdelay", "idx": idx}}


def sched_script(r, idx, seq=None):
    """Several streams with different priorities written to in bursts while the congestion window
    lets only part of the data out: the order of the STREAM frames is the scheduler's decision.
    `seq` is a TLC-enumerated operation order (w<i> write, p<i> raise priority, q<i> lower it,
    f<i> finish, r<i> reset, t let time pass)."""
    fair = r.random() < 0.6
    writer = r.choice([1, 1, 0])
    wcfg = {"idle_ms": 30000, "cc": r.choice(["fixed:2400", "fixed:3600", "fixed:12000", "newreno"]), "send_fairness": fair,
            "send_window": 10000000, "mtud": False}
    rcfg = {"idle_ms": 30000, "recv_window": 10000000, "stream_recv_window": 2000000, "max_bidi": 100, "max_uni": 100}
    cfg = base_cfg(r, server=(wcfg if writer == 0 else rcfg), client=(wcfg if writer == 1 else rcfg))
    if writer == 0:
        cfg["client"].update({"max_bidi": 100, "max_uni": 100})
    cfg["latency_us"] = r.choice([1000, 10000, 40000])
    if r.random() < 0.3:
        cfg["max_datagrams"] = r.choice([1, 2, 4])
    steps = [{"do": "connect", "n": 1}, {"do": "run_until", "what": "connected", "max_us": 20000000},
             {"do": "run", "us": 300000}]
    k = r.choice([2, 3, 3, 4, 6])
    ids = []
    nxt = {0: 0 if writer == 1 else 1, 1: 2 if writer == 1 else 3}
    for _ in range(k):
        d = r.choice([0, 1])
        ids.append(nxt[d])
        nxt[d] += 4
        steps.append({"do": "op", "n": writer, "c": 0, "op": {"op": "open", "dir": d}})
    offs = {i: 0 for i in ids}
    prios = {i: 0 for i in ids}
    dead = set()

    def op(o):
        steps.append({"do": "op", "n": writer, "c": 0, "op": o})

    def write(i, ln):
        op({"op": "write", "id": i, "len": ln, "key": _skey(writer == 0, i), "off": "auto"})

    if seq is None:
        seq = []
        for _ in range(r.choice([10, 25, 40])):
            x = r.random()
            i = r.randrange(k)
            seq.append(("w%d" if x < 0.5 else "p%d" if x < 0.62 else "q%d" if x < 0.7 else "f%d" if x < 0.76 else "r%d" if x < 0.79 else "t") % i
                       if x < 0.79 else "t")
    for sym in seq:
        if sym == "t":
            steps.append({"do": "run", "us": r.choice([0, 300, 2000, 11000, 50000, 200000])})
            continue
        i = ids[int(sym[1:]) % k]
        if sym[0] == "w":
            if i not in dead:
                write(i, r.choice([1, 200, 1300, 1300, 4000, 20000]))
        elif sym[0] in "pq":
            prios[i] += 1 if sym[0] == "p" else -1
            op({"op": "set_priority", "id": i, "prio": prios[i]})
        elif sym[0] == "f":
            if i not in dead:
                op({"op": "finish", "id": i})
                dead.add(i)
        elif sym[0] == "r":
            if i not in dead:
                op({"op": "reset", "id": i, "code": 7})
                dead.add(i)
    steps.append({"do": "run", "us": 3000000})
    return {"cfg": cfg, "steps": steps, "tag": {"family": "sched", "idx": idx, "fair": fair}}


def _varint(v):
    if v < 64:
        return bytes([v])
    if v < 16384:
        return bytes([0x40 | (v >> 8), v & 0xff])
    return bytes([0x80 | (v >> 24), (v >> 16) & 0xff, (v >> 8) & 0xff, v & 0xff])


def dispatch_datagram(r, label):
    """Bytes for one case of the front-door table: j<n> junk of n bytes; s<n> short header of n bytes
    (sx: fixed bit clear); l<v><n> long header of n bytes with v = b unsupported version (bx: fixed bit
    clear, bc: a 21-byte connection ID), z version 0, i Initial (is: 4-byte destination ID), q 0-RTT,
    h Handshake, r Retry, t truncated in the connection IDs."""
    def rnd(n):
        return bytes(r.randrange(256) for _ in range(n))
    if label[0] == "j":
        n = int(label[1:])
        return rnd(n) if n == 0 else bytes([0x00]) + rnd(n - 1)      # short form without the fixed bit
    if label[0] == "s":
        nofix = label[1] == "x"
        n = int(label[2:] if nofix else label[1:])
        first = (0x00 if nofix else 0x40) | r.randrange(64)
        return (bytes([first]) + rnd(max(0, n - 1)))[:n]
    kind = label[1]
    rest = label[2:]
    flag = ""
    while rest and not rest[0].isdigit():
        flag += rest[0]
        rest = rest[1:]
    n = int(rest)
    ty = {"i": 0, "q": 1, "h": 2, "r": 3}.get(kind, r.randrange(4))
    first = 0x80 | (0 if "x" in flag else 0x40) | (ty << 4) | r.randrange(16)
    ver = {"b": r.choice([b"\x1a\x2a\x3a\x4a", b"\xff\x00\x00\x1c", b"\x00\x00\x00\x02", b"\x0a\x1a\x2a\x3a"]),
           "z": b"\x00\x00\x00\x00"}.get(kind, r.choice([b"\x00\x00\x00\x01", b"\xff\x00\x00\x1d"]))
    if kind == "t":
        return (bytes([first]) + b"\x00\x00\x00\x01" + bytes([20]) + rnd(30))[:n]
    dl = 21 if "c" in flag else 4 if "s" in flag else r.choice([0, 8, 8, 20]) if kind in "bz" else r.choice([8, 8, 12, 20])
    sl = r.choice([0, 8, 20]) if kind in "bz" else r.choice([0, 8])
    if kind == "b" and n <= 14:
        dl, sl = (0, 0) if n <= 13 else r.choice([(0, 7), (7, 0)])
    hdr = bytes([first]) + ver + bytes([dl]) + rnd(dl) + bytes([sl]) + rnd(sl)
    if kind == "i":
        body = max(0, n - len(hdr) - 3)
        hdr += _varint(0) + bytes([0x40 | (body >> 8), body & 0xff])
    elif kind in "qh":
        body = max(0, n - len(hdr) - 2)
        hdr += bytes([0x40 | (body >> 8), body & 0xff])
    data = hdr + rnd(max(0, n - len(hdr)))
    return data[:max(n, 0)] if kind in "bz" and n < len(hdr) else data[:n] if len(data) >= n else data


def dispatch_script(r, idx, labels=None):
    """Datagrams of every kind the front door distinguishes, sent from an address nobody knows to a
    server and to an endpoint that accepts nothing, alone and in pairs a few milliseconds apart."""
    cfg = base_cfg(r, server={"idle_ms": 30000}, client={"idle_ms": 30000})
    cfg["cid_gen"] = r.choice(["det", "det", "random", "hashed"])
    if r.random() < 0.3:
        cfg["min_reset_interval_ms"] = r.choice([0, 5, 100])
    steps = []
    if r.random() < 0.7:
        steps += [{"do": "connect", "n": 1}, {"do": "run_until", "what": "connected", "max_us": 20000000}]
    if labels is None:
        menu = ["j0", "j1", "s8", "s21", "s22", "s23", "s40", "s100", "s1200", "sx100", "lb7", "lb13", "lb14", "lb47", "lb100",
                "lb1200", "lbx100", "lbc100", "lz50", "li100", "li1199", "li1200", "li1300", "lis1200", "lh100", "lq100", "lr100", "lt20"]
        labels = [r.choice(menu) for _ in range(r.choice([3, 8, 20]))]
    for lab in labels:
        to = r.choice([0, 0, 1])
        steps.append({"do": "raw", "to": to, "hex": dispatch_datagram(r, lab).hex(),
                      "from": [r.choice([7, 9]), r.choice([1, 2]), r.choice([40000, 40001])]})
        steps.append({"do": "run", "us": r.choice([0, 0, 3000, 12000, 25000, 120000])})
    steps.append({"do": "run", "us": 500000})
    return {"cfg": cfg, "steps": steps, "tag": {"family": "dispatch", "idx": idx, "labels": list(labels)}}


def retx_script(r, idx, fate_vec=None):
    """A flow-control workload (credit of all three kinds flowing in both directions, small windows)
    under heavy but finite loss, with a reset or a STOP_SENDING thrown in, no idle timeout, and a long
    quiet tail: whatever control information was lost has to be sent again before the side goes quiet."""
    s = flow_script(r, idx, fate_vec=fate_vec)
    cfg = s["cfg"]
    for side in ("server", "client"):
        cfg[side]["idle_ms"] = 0
        cfg[side].pop("pad_to_mtu", None)          # known finding: padded ACKs fill the window for good
    cfg.pop("loss_pct", None)
    cfg.pop("dup_pct", None)
    if fate_vec is None:
        p = r.choice([0.15, 0.3, 0.5])
        n = r.choice([30, 60, 120])
        for k in ("fates_c2s", "fates_s2c"):
            cfg[k] = [("x" if r.random() < 0.7 else r.choice(["dup:3000", "delay:40000", "delay:120000"])) if r.random() < p else "ok"
                      for _ in range(n)]
    else:
        # the enumerated vector hits the datagrams right after the handshake, then again later
        for k in ("fates_c2s", "fates_s2c"):
            cfg[k] = cfg[k] + ["ok"] * r.choice([3, 8]) + [f for f in cfg[k] if f != "ok"]
    steps = s["steps"]
    extra = []
    for _ in range(r.choice([0, 1, 2])):
        k = r.random()
        if k < 0.35:
            extra.append({"do": "op", "n": 1, "c": 0, "op": {"op": "reset", "id": r.choice([0, 2, 4]), "code": 5}})
        elif k < 0.7:
            extra.append({"do": "op", "n": 0, "c": 0, "op": {"op": "stop", "id": r.choice([0, 2, 4]), "code": 6}})
        elif k < 0.85:
            extra.append({"do": "op", "n": 0, "c": 0, "op": {"op": "reset", "id": r.choice([1, 3]), "code": 5}})
        else:
            extra.append({"do": "op", "n": 1, "c": 0, "op": {"op": "stop", "id": r.choice([1, 3]), "code": 6}})
        extra.append({"do": "run", "us": r.choice([1000, 20000, 100000])})
    # after the workload has been started and had some time
    at = min(len(steps), 3 + r.choice([0, 1, 2]))
    steps[at:at] = [{"do": "run", "us": r.choice([5000, 40000, 150000])}] + extra
    steps.append({"do": "run", "us": 30000000})
    s["tag"] = {"family": "retx", "idx": idx}
    return s


def stopreset_script(r, idx, seq=None):
    """Unread data on a stream that is stopped by its reader and reset or finished by its writer, in
    every order and with the frames crossing or not: the credit for the unread bytes has to come back
    exactly once.  No reading application is attached (only scripted reads), windows are small.
    `seq` is a TLC-enumerated order over st (reader stops), rs (writer resets), wr (writer writes more),
    fi (writer finishes), rd (reader reads a little), t (time passes: frames are delivered)."""
    writer = r.choice([1, 1, 0])
    reader = 1 - writer
    rcfg = {"idle_ms": 30000, "recv_window": r.choice([1000, 3000, 10000]), "stream_recv_window": r.choice([600, 2000, 10000])}
    wcfg = {"idle_ms": 30000}
    cfg = base_cfg(r, server=(wcfg if writer == 0 else rcfg), client=(wcfg if writer == 1 else rcfg))
    cfg["latency_us"] = r.choice([1000, 10000])
    steps = [{"do": "connect", "n": 1}, {"do": "run_until", "what": "connected", "max_us": 20000000}, {"do": "run", "us": 200000}]
    d = r.choice([0, 1])
    sid = (0 if writer == 1 else 1) + 2 * d
    steps.append({"do": "op", "n": writer, "c": 0, "op": {"op": "open", "dir": d}})
    steps.append({"do": "op", "n": writer, "c": 0, "op": {"op": "write", "id": sid, "len": r.choice([1, 100, 400]), "key": _skey(writer == 0, sid), "off": "auto"}})
    if r.random() < 0.8:
        steps.append({"do": "run", "us": 100000})
    if seq is None:
        seq = [r.choice(["st", "rs", "wr", "fi", "rd", "t", "t"]) for _ in range(r.choice([3, 5, 8]))]
    for sym in seq:
        if sym == "st":
            steps.append({"do": "op", "n": reader, "c": 0, "op": {"op": "stop", "id": sid, "code": 7}})
        elif sym == "rs":
            steps.append({"do": "op", "n": writer, "c": 0, "op": {"op": "reset", "id": sid, "code": 9}})
        elif sym == "wr":
            steps.append({"do": "op", "n": writer, "c": 0, "op": {"op": "write", "id": sid, "len": r.choice([1, 50, 150]), "key": _skey(writer == 0, sid), "off": "auto"}})
        elif sym == "fi":
            steps.append({"do": "op", "n": writer, "c": 0, "op": {"op": "finish", "id": sid}})
        elif sym == "rd":
            steps.append({"do": "op", "n": reader, "c": 0, "op": {"op": "read", "id": sid, "ordered": True, "max_len": r.choice([1, 30, 1000])}})
        else:
            steps.append({"do": "run", "us": r.choice([3000, 30000, 100000])})
    steps.append({"do": "run", "us": 300000})
    # a second stream afterwards: whatever credit was over-issued would let it overrun the window
    sid2 = sid + 4
    steps.append({"do": "op", "n": writer, "c": 0, "op": {"op": "open", "dir": d}})
    steps.append({"do": "op", "n": writer, "c": 0, "op": {"op": "write", "id": sid2, "len": 3000, "key": _skey(writer == 0, sid2), "off": "auto"}})
    steps.append({"do": "run", "us": 500000})
    return {"cfg": cfg, "steps": steps, "tag": {"family": "stopreset", "idx": idx}}


# ------------------------------------------------------------------------------------------------
# C11

def sm_op(sym, r):
    side = 1 if sym[0] == "c" else 0
    k = sym[1]
    sid = int(sym[2:])
    if k == "w":
        op = {"op": "write", "id": sid, "len": r.choice([1, 10, 2000]), "key": 5, "off": 0}
    elif k == "f":
        op = {"op": "finish", "id": sid}
    elif k == "r":
        op = {"op": "reset", "id": sid, "code": r.choice([3, 9])}
    elif k == "s":
        op = {"op": "stop", "id": sid, "code": r.choice([4, 8])}
    elif k == "d":
        op = {"op": "read", "id": sid, "ordered": True, "max_len": r.choice([5, 100000])}
    elif k == "u":
        op = {"op": "read", "id": sid, "ordered": False, "max_len": r.choice([5, 100000])}
    elif k == "e":
        op = {"op": "received_reset", "id": sid}
    else:
        op = {"op": "stopped", "id": sid}
    return {"do": "op", "n": side, "c": 0, "op": op}


def streamsm_from_seq(seq, r, idx):
    cfg = base_cfg(r)
    cfg["server"] = {"idle_ms": 20000, "max_bidi": r.choice([1, 2, 100]), "max_uni": r.choice([1, 100])}
    cfg["client"] = {"idle_ms": 20000, "max_bidi": r.choice([1, 2, 100]), "max_uni": r.choice([1, 100])}
    if r.random() < 0.35:
        # stream windows that the first writes fill exactly: a stopped writer is also a blocked one
        for side in ("server", "client"):
            cfg[side]["stream_recv_window"] = r.choice([10, 11, 20])
    steps = [{"do": "connect", "n": 1}, {"do": "run_until", "what": "connected", "max_us": 5000000},
             {"do": "op", "n": 1, "c": 0, "op": {"op": "open", "dir": 0}},
             {"do": "op", "n": 1, "c": 0, "op": {"op": "write", "id": 0, "len": 10, "key": 5, "off": 0}},
             {"do": "run", "us": 40000},
             {"do": "op", "n": 0, "c": 0, "op": {"op": "accept", "dir": 0}}]
    for sym in seq:
        if sym == "n":
            steps.append({"do": "run", "us": r.choice([15000, 40000])})
        elif sym == "x":
            steps.append({"do": "drop_inflight", "k": r.randrange(4)})
        else:
            steps.append(sm_op(sym, r))
    steps.append({"do": "run", "us": 400000})
    # closing round: every operation once more on both sides
    for sym in ["cq0", "sq0", "ce0", "se0", "cd0", "sd0", "cw0", "sw0", "cf0", "sf0", "cu0", "su0", "cs0", "ss0", "cr0", "sr0", "ce0", "se0", "cd0", "sd0"]:
        if r.random() < 0.7:
            steps.append(sm_op(sym, r))
    steps.append({"do": "run", "us": 400000})
    steps.append({"do": "op", "n": 1, "c": 0, "op": {"op": "open", "dir": 0}})
    steps.append({"do": "op", "n": 0, "c": 0, "op": {"op": "counts"}})
    steps.append({"do": "op", "n": 1, "c": 0, "op": {"op": "counts"}})
    return {"cfg": cfg, "steps": steps, "tag": {"family": "streamsm-seq", "seq": seq, "idx": idx}}


def streamsm_random(r, idx):
    """Several streams of every kind, operations in random order, faults."""
    cfg = base_cfg(r)
    cfg["server"] = {"idle_ms": 20000, "max_bidi": r.choice([1, 2, 3, 100]), "max_uni": r.choice([1, 2, 100])}
    cfg["client"] = {"idle_ms": 20000, "max_bidi": r.choice([1, 2, 3, 100]), "max_uni": r.choice([1, 2, 100])}
    if r.random() < 0.3:
        for side in ("server", "client"):
            cfg[side]["stream_recv_window"] = r.choice([1, 5, 10, 2000])
    cfg["fates_c2s"] = ["ok"] * 4 + fates(r, 16)
    cfg["fates_s2c"] = ["ok"] * 4 + fates(r, 16)
    steps = [{"do": "connect", "n": 1}, {"do": "run_until", "what": "connected", "max_us": 8000000}]
    ids = {1: [], 0: []}
    pool = []
    for _ in range(r.choice([8, 15, 30])):
        k = r.random()
        side = r.choice([0, 1])
        if k < 0.15 or not pool:
            d = r.choice([0, 1])
            steps.append({"do": "op", "n": side, "c": 0, "op": {"op": "open", "dir": d}})
            # predicted id (checked by the spec anyway): type bits
            ty = (0 if side == 1 else 1) + 2 * d
            nxt = len([x for x in ids[side] if x % 4 == ty])
            sid = 4 * nxt + ty
            ids[side].append(sid)
            pool.append(sid)
            steps.append({"do": "op", "n": side, "c": 0, "op": {"op": "write", "id": sid, "len": 5, "key": 1, "off": 0}})
        elif k < 0.25:
            steps.append({"do": "op", "n": side, "c": 0, "op": {"op": "accept", "dir": r.choice([0, 1])}})
        elif k < 0.45:
            steps.append({"do": "run", "us": r.choice([5000, 25000, 60000])})
        else:
            sid = r.choice(pool)
            uni = (sid // 2) % 2 == 1
            init_side = 1 if sid % 2 == 0 else 0
            kind = r.choice(["w", "f", "r", "q"] if (not uni or side == init_side) else ["d", "d", "s", "e", "u"])
            if not uni and r.random() < 0.5:
                kind = r.choice(["d", "d", "s", "e", "u"])
            sym = ("c" if side == 1 else "s") + kind + str(sid)
            steps.append(sm_op(sym, r))
    steps.append({"do": "run", "us": 600000})
    for sid in pool:
        for side in (0, 1):
            uni = (sid // 2) % 2 == 1
            init_side = 1 if sid % 2 == 0 else 0
            if not uni or side != init_side:
                steps.append(sm_op(("c" if side == 1 else "s") + "d" + str(sid), r))
            if not uni or side == init_side:
                steps.append(sm_op(("c" if side == 1 else "s") + "q" + str(sid), r))
    steps.append({"do": "run", "us": 300000})
    return {"cfg": cfg, "steps": steps, "tag": {"family": "streamsm-random", "idx": idx}}


# ------------------------------------------------------------------------------------------------
# C02

def progress_eager(r, idx):
    """A driver that polls a pacing-blocked connection every few microseconds instead of sleeping
    until the pacing timer: harmless for a correct pacer, so a small transfer over a long, clean path
    must finish within a few round trips."""
    cfg = base_cfg(r)
    cfg["latency_us"] = r.choice([50000, 100000, 250000])
    cfg["eager_poll_us"] = r.choice([10, 20])
    cfg["eager_polls"] = 3100000          # enough to keep polling for the whole time budget
    t = {"idle_ms": 0, "mtud": False}
    if r.random() < 0.5:
        t["cc"] = r.choice(["newreno", "cubic", "fixed:12000"])
    cfg["server"], cfg["client"] = dict(t), dict(t)
    budget = 30
    steps = [{"do": "connect", "n": 1},
             {"do": "app", "n": 1, "c": 0, "read_max": 1 << 20, "ordered": True, "maxsize": 30000,
              "streams": [{"dir": r.choice([0, 1]), "size": r.choice([3000, 30000]), "chunk": 5000, "finish": True}]},
             {"do": "run_until", "what": "apps", "max_us": budget * 1000000}]
    return {"cfg": cfg, "steps": steps, "tag": {"family": "progress-eager", "idx": idx, "budget_s": budget}}


def progress_script(r, idx, fate_vec=None, drops_only=None):
    if fate_vec is None and drops_only is None:
        return progress_eager(r, idx)
    cfg = base_cfg(r)
    for side in ("server", "client"):
        t = {}
        t["idle_ms"] = 0          # the budget, not the idle timeout, bounds the run
        if r.random() < 0.7:
            t["cc"] = r.choice(["newreno", "cubic", "bbr", "fixed:3000", "fixed:12000", "flip:3000:30000"])
        if r.random() < 0.4:
            t["recv_window"] = r.choice([1200, 10000])
        if r.random() < 0.4:
            t["stream_recv_window"] = r.choice([1200, 10000])
        if r.random() < 0.3:
            t["send_window"] = r.choice([1200, 10000])
        if r.random() < 0.3:
            t["max_bidi"] = r.choice([0, 1, 100])
            t["max_uni"] = r.choice([0, 1, 100])
        if r.random() < 0.25:
            t["pad_to_mtu"] = True
        if r.random() < 0.25:
            t["max_bytes_per_sec"] = r.choice([50000, 1000000])
        if r.random() < 0.3:
            t["ack_freq"] = True
            t["ack_freq_threshold"] = r.choice([1, 5, 20])
        if r.random() < 0.3:
            t["mtud"] = False
        if r.random() < 0.2:
            t["packet_threshold"] = r.choice([3, 10])
        if r.random() < 0.25:
            t["keep_alive_ms"] = r.choice([300, 2000])
        if r.random() < 0.2:
            t["gso"] = False
        cfg[side] = t
    cfg["sf_size"] = r.choice([0, 0, 3000, 9000])
    if fate_vec is not None:
        half = len(fate_vec) // 2
        pre = r.choice([0, 0, 1, 3, 6, 12])   # where in the exchange the faulty prefix sits
        cfg["fates_c2s"] = ["ok"] * pre + [FATE_MAP[f] for f in fate_vec[:half]]
        cfg["fates_s2c"] = ["ok"] * pre + [FATE_MAP[f] for f in fate_vec[half:]]
    elif drops_only is not None:
        cfg["fates_c2s"] = ["x" if b else "ok" for b in drops_only[0]]
        cfg["fates_s2c"] = ["x" if b else "ok" for b in drops_only[1]]
    cfg["late_us"] = r.choice([0, 0, 1000, 50000, 1000000])
    cfg["spurious"] = r.random() < 0.3
    cfg["max_datagrams"] = r.choice([1, 3, 10])
    steps = [{"do": "connect", "n": 1}]
    tiny = any(cfg[x].get(k, 10 ** 9) < 5000 for x in ("server", "client") for k in ("recv_window", "stream_recv_window", "send_window")) \
        or any(cfg[x].get("max_bytes_per_sec", 10 ** 9) < 100000 for x in ("server", "client")) \
        or any(cfg[x].get("cc", "") == "fixed:3000" for x in ("server", "client"))

    def wl(n):
        streams = []
        for _ in range(r.choice([1, 2, 3])):
            size = r.choice([1, 100, 1200, 3000] if tiny else [1, 1200, 5000, 20000, 70000])
            streams.append({"dir": r.choice([0, 0, 1]), "size": size, "chunk": r.choice([1000, 5000, 1 << 20]), "finish": True})
        a = {"do": "app", "n": n, "c": 0, "streams": streams, "read_max": 1 << 20, "ordered": True,
             "maxsize": max(s["size"] for s in streams)}
        if r.random() < 0.3:
            a["echo"] = r.choice([1, 100, 1200, 3000] if tiny else [1, 1200, 20000])
            a["echo_chunk"] = r.choice([1000, 5000, 1 << 20])
        return a

    steps.append(wl(1))
    aux = []
    if r.random() < 0.5:
        steps.append({"do": "run_until", "what": "connected", "max_us": 200000000})
        steps.append(wl(0))
    for _ in range(r.choice([0, 0, 1, 2, 3])):
        steps.append({"do": "run", "us": r.choice([1000, 20000, 100000, 700000])})
        side = r.choice([0, 1])
        k = r.random()
        if k < 0.3:
            steps.append({"do": "op", "n": side, "c": 0, "op": {"op": "key_update"}})
        elif k < 0.5:
            steps.append({"do": "op", "n": side, "c": 0, "op": {"op": "ping"}})
        elif k < 0.65:
            steps.append({"do": "op", "n": side, "c": 0, "op": {"op": "set_send_window", "v": r.choice([1200, 100000])}})
        elif k < 0.8:
            steps.append({"do": "op", "n": side, "c": 0, "op": {"op": "set_receive_window", "v": r.choice([1200, 100000])}})
        else:
            steps.append({"do": "op", "n": side, "c": 0, "op": {"op": "set_max_streams", "dir": r.choice([0, 1]), "v": r.choice([1, 5, 100])}})
    # streams limited to zero are raised later so that the workload can complete
    steps.append({"do": "run_until", "what": "connected", "max_us": 200000000})
    steps.append({"do": "run", "us": 300000})
    for side in (0, 1):
        for d in (0, 1):
            steps.append({"do": "op", "n": side, "c": 0, "op": {"op": "set_max_streams", "dir": d, "v": 100}})
    budget = 400
    steps.append({"do": "run_until", "what": "apps", "max_us": budget * 1000000})
    return {"cfg": cfg, "steps": steps, "tag": {"family": "progress", "idx": idx, "budget_s": budget}}


def progress_manystreams(r, idx):
    """Many short streams opened one after the other under a stream-count limit of one or two: every
    completed stream has to earn the credit for the next one, dozens of times in a row, also when
    some of the MAX_STREAMS frames are lost."""
    lim = r.choice([1, 1, 2, 3])
    d = 1          # unidirectional: a stream is over when its one direction is (nobody answers here)
    writer = r.choice([0, 1])
    peer = {"idle_ms": 0, "max_bidi": lim if d == 0 else 100, "max_uni": lim if d == 1 else 100}
    me = {"idle_ms": 0}
    cfg = base_cfg(r, server=(me if writer == 0 else peer), client=(me if writer == 1 else peer))
    if r.random() < 0.5:
        cfg["fates_c2s"] = ["ok"] * 8 + fates(r, 30, 0.2)
        cfg["fates_s2c"] = ["ok"] * 8 + fates(r, 30, 0.2)
    n = r.choice([10, 20, 40]) * lim
    streams = [{"dir": d, "size": r.choice([1, 10, 300]), "chunk": 1 << 20, "finish": True} for _ in range(n)]
    steps = [{"do": "connect", "n": 1}, {"do": "run_until", "what": "connected", "max_us": 20000000},
             {"do": "app", "n": writer, "c": 0, "streams": streams, "read_max": 1 << 20, "ordered": True, "maxsize": 300},
             {"do": "run_until", "what": "apps", "max_us": 120000000}]
    return {"cfg": cfg, "steps": steps, "tag": {"family": "progress", "idx": idx, "budget_s": 120}}


# ------------------------------------------------------------------------------------------------
# C03 / C06

def _var(v):
    if v < 1 << 6:
        return bytes([v])
    if v < 1 << 14:
        return (v | 0x4000).to_bytes(2, "big")
    if v < 1 << 30:
        return (v | 0x80000000).to_bytes(4, "big")
    return (v | 0xc000000000000000).to_bytes(8, "big")


def hostile_case(case, r, idx):
    """Concretise one abstract HostileGen case: frame bytes + descriptor for Hostile!Expected."""
    v = case["v"]
    k = case["k"]
    rel = case["rel"]
    conn_aim = case["lim"] == "conn"
    sw, cw = (8000, 3000) if conn_aim else (1000, 100000)
    msb, msu = 2, 1
    victim_t = {"stream_recv_window": sw, "recv_window": cw, "max_bidi": msb, "max_uni": msu,
                "dgram_recv_buf": 500, "idle_ms": 20000, "mtud": False}
    other_t = {"idle_ms": 20000, "mtud": False}
    cfg = base_cfg(r)
    cfg["server"], cfg["client"] = (victim_t, other_t) if v == "s" else (other_t, victim_t)
    peerbit = 0 if v == "s" else 1
    ownbit = 1 - peerbit
    ids = {"peer_bidi_first": peerbit, "peer_bidi_last_allowed": 4 * (msb - 1) + peerbit,
           "peer_bidi_beyond": 4 * msb + peerbit, "peer_uni_first": 2 + peerbit,
           "peer_uni_beyond": 4 * msu + 2 + peerbit, "own_uni": 2 + ownbit, "own_bidi_unopened": ownbit,
           "none": 0}
    sid = ids[case["idc"]]
    limit = cw if conn_aim else sw
    d = {"k": k}
    if k in ("stream", "reset"):
        end = limit + rel
        d.update({"id": sid, "end": end})
        if k == "stream":
            fb = bytes([0x0e]) + _var(sid) + _var(end - 1) + _var(1) + b"A"
        else:
            fb = bytes([0x04]) + _var(sid) + _var(5) + _var(end)
    elif k == "finthenmore":
        fin = 10
        end = fin + rel
        d.update({"id": sid, "fin": fin, "end": end})
        fb = bytes([0x0f]) + _var(sid) + _var(fin - 1) + _var(1) + b"F" \
            + bytes([0x0e]) + _var(sid) + _var(end - 1) + _var(1) + b"M"
    elif k == "morethenfin":
        fin = 10
        end = fin + rel
        d.update({"id": sid, "fin": fin, "end": end})
        fb = bytes([0x0e]) + _var(sid) + _var(end - 1) + _var(1) + b"M" \
            + bytes([0x0f]) + _var(sid) + _var(fin - 1) + _var(1) + b"F"
    elif k == "stop":
        d["id"] = sid
        fb = bytes([0x05]) + _var(sid) + _var(7)
    elif k == "maxsd":
        d["id"] = sid
        fb = bytes([0x11]) + _var(sid) + _var(100000)
    elif k == "sdblocked":
        d["id"] = sid
        fb = bytes([0x15]) + _var(sid) + _var(5)
    elif k in ("maxstreams", "streamsblocked"):
        val = {-1: 5, 0: 1 << 60, 1: (1 << 60) + 1}[rel]
        d["huge"] = rel == 1
        fb = bytes([0x12 if k == "maxstreams" else 0x16]) + _var(val)
    elif k == "newcid":
        seq, rpt = {-1: (2, 3), 0: (100, 0), 1: (100, 101)}[rel]
        d.update({"seq": seq, "rpt": rpt})
        fb = bytes([0x18]) + _var(seq) + _var(rpt) + bytes([8]) + bytes(r.randrange(256) for _ in range(8)) \
            + bytes(r.randrange(256) for _ in range(16))
    elif k == "retirecid":
        seq = {-1: 1, 0: 100, 1: 1000}[rel]
        d["seq"] = seq
        if rel == -1:
            # a valid retirement the honest peer does not know about desynchronises the two honest
            # stacks: only robustness is demanded, not a particular outcome
            d["k"] = "desync"
        fb = bytes([0x19]) + _var(seq)
    elif k == "newtoken":
        ln = 0 if rel == -1 else 5
        d["len"] = ln
        fb = bytes([0x07]) + _var(ln) + b"T" * ln
    elif k == "datagram":
        ln = 500 + rel
        d["len"] = ln
        fb = bytes([0x31]) + _var(ln) + b"D" * ln
    elif k == "crypto":
        end = 16384 + rel
        d["off"] = end          # Hostile!Expected compares against 16384 + 1
        fb = bytes([0x06]) + _var(end - 1) + _var(1) + b"C"
    elif k == "ackfreq":
        mad = 1000 + rel
        d["mad"] = mad
        fb = bytes([0x40, 0xaf]) + _var(1) + _var(1) + _var(mad) + _var(1)
    elif k == "hsdone":
        fb = bytes([0x1e])
    elif k == "ackunsent":
        fb = bytes([0x02]) + _var(1 << 29) + _var(0) + _var(0) + _var(0)
    elif k == "ackrange":
        # the LAST additional range is longer than the packet numbers left below it (round-4 mutant C03/r4m1
        # checked every range but the last)
        largest, first, more = r.choice([(5, 1, [(1, 5)]), (2, 0, [(0, 1)]), (10, 0, [(0, 0), (0, 9)]), (10, 0, [(7, 2)])])
        fb = bytes([0x02]) + _var(largest) + _var(0) + _var(len(more)) + _var(first) + b"".join(_var(g) + _var(n) for g, n in more)
    elif k == "unknown":
        fb = bytes([0x21])
    elif k == "truncated":
        fb = bytes([0x04])
    elif k == "ping":
        fb = bytes([0x01])
    elif k == "padding":
        fb = bytes([0x00, 0x00])
    elif k == "pathresp":
        fb = bytes([0x1b]) + bytes(8)
    elif k == "pathchal":
        fb = bytes([0x1a]) + bytes(range(8))
    elif k == "datablocked":
        fb = bytes([0x14]) + _var(5)
    elif k == "maxdata":
        fb = bytes([0x10]) + _var(100000)
    else:
        raise ValueError(k)
    bystander = r.random() < 0.25
    if bystander:
        cfg["clients"] = 2
    attacker_n, victim_n = (1, 0) if v == "s" else (0, 1)
    steps = [{"do": "connect", "n": 1}]
    if bystander:
        steps.append({"do": "connect", "n": 2})
        steps.append({"do": "app", "n": 2, "c": 0, "streams": [{"dir": 0, "size": 4000, "chunk": 1000, "finish": True}]})
    steps += [{"do": "run_until", "what": "connected", "max_us": 5000000}, {"do": "run", "us": 400000}]
    if k in ("stream", "reset") and case["idc"] == "peer_bidi_last_allowed" and not conn_aim and r.random() < 0.6:
        # the limit must be that of the stream itself, not one inherited from an earlier stream whose
        # bookkeeping is recycled: first an honest exchange of three windows on the peer's first stream
        # (answered and finished by the victim, so that the stream is released and one more stream is
        # granted), then the probe goes to the newly granted stream
        steps += [{"do": "app", "n": attacker_n, "c": 0, "read_max": 1 << 20, "ordered": True, "echo": 10,
                   "streams": [{"dir": 0, "size": 3 * sw, "chunk": 1000, "finish": True}]},
                  {"do": "run_until", "what": "apps", "max_us": 5000000}, {"do": "run", "us": 300000},
                  {"do": "app", "n": attacker_n, "c": 0, "streams": [], "echo_off": True}]
        d["warm"] = True
        sid = 4 * msb + peerbit
        end = limit + rel
        d.update({"id": sid, "end": end})
        if k == "stream":
            fb = bytes([0x0e]) + _var(sid) + _var(end - 1) + _var(1) + b"A"
        else:
            fb = bytes([0x04]) + _var(sid) + _var(5) + _var(end)
    steps += [{"do": "mitm", "dir": "c2s" if v == "s" else "s2c", "nth_short": 0, "mode": "append", "hex": fb.hex()},
              {"do": "op", "n": attacker_n, "c": 0, "op": {"op": "ping"}},
              {"do": "run", "us": 300000}]
    # the victim application tries to read whatever the hostile frame may have delivered
    own_uni = (sid // 2) % 2 == 1 and (sid % 2 == (0 if v == "c" else 1))
    if k in ("stream", "finthenmore", "morethenfin") and not own_uni:
        steps.append({"do": "op", "n": victim_n, "c": 0, "op": {"op": "accept", "dir": 1 if (sid // 2) % 2 else 0}})
        steps.append({"do": "op", "n": victim_n, "c": 0, "op": {"op": "read", "id": sid, "ordered": False}})
    steps.append({"do": "run_until", "what": "apps", "max_us": 5000000})
    d["by"] = bystander
    return {"cfg": cfg, "steps": steps, "tag": {"family": "hostile-frame", "victim": v, "inject": d, "idx": idx,
                                                 "abstract": case, "hostile": True}}


def hostile_flood(r, idx, kind=None):
    v = r.choice(["s", "c"])
    cfg = base_cfg(r)
    cfg["server"] = {"idle_ms": 20000}
    cfg["client"] = {"idle_ms": 20000}
    kind = kind or r.choice(["pathchal", "newcid", "newcid_rpt", "newcid_jump", "retirecid", "ping", "maxdata", "stream1", "ackdup", "ackbad", "streamdup"])
    if kind == "pathchal":
        fb = b"".join(bytes([0x1a]) + bytes(r.randrange(256) for _ in range(8)) for _ in range(40))
    elif kind == "newcid":
        fb = b"".join(bytes([0x18]) + _var(s) + _var(0) + bytes([8]) + bytes(r.randrange(256) for _ in range(8))
                      + bytes(r.randrange(256) for _ in range(16)) for s in range(5, 9))
    elif kind == "newcid_rpt":
        # every frame retires everything issued before it: the list of pending retirements must stay bounded
        first = r.choice([30, 40, 60])
        fb = b"".join(bytes([0x18]) + _var(s) + _var(s) + bytes([8]) + bytes(r.randrange(256) for _ in range(8))
                      + bytes(r.randrange(256) for _ in range(16)) for s in range(first, first + 24))
    elif kind == "newcid_jump":
        # ... and so must frames that each retire a whole block of never-seen IDs
        step = r.choice([20, 45, 49])
        fb = b"".join(bytes([0x18]) + _var(step * k) + _var(step * k) + bytes([8]) + bytes(r.randrange(256) for _ in range(8))
                      + bytes(r.randrange(256) for _ in range(16)) for k in range(1, 25))
    elif kind == "ackbad":
        # ACK frames whose ranges run below zero, overlap, or start above the largest acknowledged
        def ack(largest, first, more):
            return bytes([0x02]) + _var(largest) + _var(0) + _var(len(more)) + _var(first) + b"".join(_var(g) + _var(l) for g, l in more)
        fb = r.choice([ack(1, 0, [(0, 0)]), ack(3, 0, [(2, 0)]), ack(2, 3, []), ack(0, 0, [(0, 0)]), ack(5, 1, [(1, 5)]),
                       ack(3, 1, [(0, 0), (0, 0)]), ack(1, 1, [(0, 0)]), ack(2, 0, [(0, 1)]), ack(4, 0, [(3, 0)])])
    elif kind == "retirecid":
        fb = b"".join(bytes([0x19]) + _var(s) for s in range(1, 4))
    elif kind == "ping":
        fb = bytes([0x01]) * 200
    elif kind == "maxdata":
        fb = b"".join(bytes([0x10]) + _var(x) for x in range(1000, 1100))
    elif kind == "streamdup":
        # the same range of a stream over and over, behind a hole that is never filled: what is kept
        # for reassembly must not grow with the number of copies
        peerbit = 0 if v == "s" else 1
        n = r.choice([300, 700, 1000])
        fb = bytes([0x0e]) + _var(peerbit + 4 * r.choice([0, 1])) + _var(r.choice([1, 5, 2000])) + _var(n) + b"x" * n
    elif kind == "stream1":
        peerbit = 0 if v == "s" else 1
        fb = b"".join(bytes([0x0e]) + _var(peerbit) + _var(2 * i) + _var(1) + b"x" for i in range(150))
    else:
        fb = (bytes([0x02]) + _var(0) + _var(0) + _var(0) + _var(0)) * 50
    cfg["clients"] = 2
    steps = [{"do": "connect", "n": 1}, {"do": "connect", "n": 2},
             {"do": "app", "n": 2, "c": 0, "streams": [{"dir": 0, "size": 6000, "chunk": 1000, "finish": True}]},
             {"do": "run_until", "what": "connected", "max_us": 5000000}, {"do": "run", "us": 300000},
             # long floods replace the frames of the carrying packet (appended they would exceed the link MTU)
             {"do": "mitm", "dir": "c2s" if v == "s" else "s2c", "nth_short": 0, "mode": "replace" if len(fb) > 250 else "append",
              "hex": fb.hex(), "count": r.choice([5, 40, 150])},
             {"do": "app", "n": 1, "c": 0, "streams": [{"dir": 0, "size": 200000, "chunk": 1000, "finish": True}]},
             {"do": "app", "n": 0, "c": 0, "streams": [{"dir": 0, "size": 200000, "chunk": 1000, "finish": True}]},
             {"do": "run", "us": 3000000}]
    return {"cfg": cfg, "steps": steps, "tag": {"family": "hostile-flood", "victim": v, "inject": {"k": "flood", "what": kind, "by": True},
                                                 "idx": idx, "hostile": True}}


TP_IDS = [0x01, 0x03, 0x04, 0x05, 0x06, 0x07, 0x08, 0x09, 0x0a, 0x0b, 0x0c, 0x0e, 0x0f, 0x20, 0xff04de1b, 0x00, 0x02, 0x10]
TP_VALUES = [0, 1, 2, 3, 20, 21, 63, 64, 1199, 1200, 16383, 16384, (1 << 14), (1 << 24), (1 << 30) - 1, (1 << 30), (1 << 60), (1 << 60) + 1, (1 << 62) - 1]


def hostile_tp(r, idx):
    """Hostile transport parameters presented by a peer (grammar: set / remove / duplicate / raw)."""
    side = r.choice(["client", "client", "server"])
    cfg = base_cfg(r)
    cfg["server"] = {"idle_ms": 5000, "ack_freq": r.random() < 0.6}
    cfg["client"] = {"idle_ms": 5000, "ack_freq": r.random() < 0.4}
    if r.random() < 0.2:
        cfg["server_cid_len"] = 0
    if r.random() < 0.2:
        cfg["client_cid_len"] = 0
    edits = []
    for _ in range(r.choice([1, 1, 2, 3])):
        pid = r.choice(TP_IDS)
        k = r.random()
        if k < 0.6:
            edits.append([pid, r.choice(TP_VALUES)])
        elif k < 0.7:
            edits.append([pid, -1])
        elif k < 0.8:
            edits.append([pid, -3])
        else:
            edits.append([pid, -2, bytes(r.randrange(256) for _ in range(r.choice([0, 1, 3, 9, 17]))).hex()])
    # the ack-frequency related pair at its interesting corner
    if r.random() < 0.25:
        edits = [[0x0b, r.choice([0, 1, 25, 200, 16383])], [0xff04de1b, r.choice([0, 1, 999, 1000, 25000, 100000, 16383000])]]
    cfg[side + "_tp"] = edits
    cfg["clients"] = 2
    steps = [{"do": "connect", "n": 1}, {"do": "connect", "n": 2},
             {"do": "app", "n": 1, "c": 0, "streams": [{"dir": 0, "size": 3000, "chunk": 1000, "finish": True}]},
             {"do": "app", "n": 2, "c": 0, "streams": [{"dir": 0, "size": 3000, "chunk": 1000, "finish": True}]},
             {"do": "run", "us": 3000000}]
    return {"cfg": cfg, "steps": steps, "tag": {"family": "hostile-tp", "victim": "s" if side == "client" else "c",
                                                 "inject": {"k": "tp", "edits": json_safe(edits), "by": side == "client"}, "idx": idx, "hostile": True}}


def json_safe(x):
    return [[str(v) if isinstance(v, int) and v >= 1 << 31 else v for v in e] for e in x]


def hostile_raw(r, idx):
    """Arbitrary and structure-aware mutated datagrams handed to Endpoint::handle in any state."""
    cfg = base_cfg(r)
    # the damage hits the bystander's datagrams as well: it only has to get through in the end, so
    # no idle timeout and a bounded number of damaged datagrams
    cfg["server"] = {"idle_ms": 0}
    cfg["client"] = {"idle_ms": 0}
    cfg["clients"] = 2
    n = 10
    menu = CORRUPT_MENU + ["corrupt:0:128", "corrupt:1:1", "corrupt:2:1", "corrupt:4:7", "corrupt:5:255", "corrupt:6:3",
                           "corrupt:14:200", "corrupt:15:9", "corrupt:22:77", "trunc:0", "trunc:2", "trunc:6", "trunc:7",
                           "trunc:15", "trunc:16", "trunc:23", "trunc:24", "trunc:30", "ext:1200", "dup:0"] \
        + ["trunc:%d" % k for k in range(17, 36)]    # around header + packet number + header protection sample
    cfg["fates_c2s"] = [r.choice(menu) if r.random() < 0.6 else "ok" for _ in range(n)]
    cfg["fates_s2c"] = [r.choice(menu) if r.random() < 0.6 else "ok" for _ in range(n)]
    steps = [{"do": "connect", "n": 1}, {"do": "connect", "n": 2}]
    for _ in range(r.choice([5, 20, 60])):
        ln = r.choice([0, 1, 2, 5, 6, 7, 20, 21, 22, 100, 1199, 1200, 1201, 1500] + list(range(8, 70)))
        data = bytes(r.randrange(256) for _ in range(ln))
        if ln and r.random() < 0.4:
            data = bytes([0x40 | (data[0] & 0x3f)]) + data[1:]      # short-header shaped (stateless reset path)
        if ln and r.random() < 0.5:
            # long header shaped: version / cid lengths at their boundaries
            hdr = bytes([0xc0 | r.randrange(64)]) + r.choice([b"\x00\x00\x00\x01", b"\x00\x00\x00\x00", b"\xff\x00\x00\x1d", b"\x0a\x1a\x2a\x3a"]) \
                + bytes([r.choice([0, 1, 8, 20, 21, 255])])
            data = (hdr + data)[:max(ln, len(hdr))]
        if r.random() < 0.25:
            # a well-formed Initial header whose Length field says the packet is only a few bytes long,
            # inside a datagram padded to full size: the header protection sample has to fit the PACKET
            ln2 = r.randrange(0, 40)
            dcid = bytes(r.randrange(256) for _ in range(r.choice([8, 8, 20])))
            data = bytes([0xc0 | r.randrange(4)]) + b"\x00\x00\x00\x01" + bytes([len(dcid)]) + dcid + b"\x00\x00" + bytes([ln2]) \
                + bytes(r.randrange(256) for _ in range(ln2))
            data = data + bytes(max(0, r.choice([len(data), 1200]) - len(data)))
        steps.append({"do": "raw", "to": r.choice([0, 0, 1]), "hex": data.hex()})
        if r.random() < 0.3:
            steps.append({"do": "run", "us": r.choice([0, 1000, 30000])})
    steps.append({"do": "app", "n": 2, "c": 0, "streams": [{"dir": 0, "size": 3000, "chunk": 1000, "finish": True}]})
    steps.append({"do": "run_until", "what": "apps", "max_us": 400000000})
    return {"cfg": cfg, "steps": steps, "tag": {"family": "hostile-raw", "victim": "s", "inject": {"k": "raw", "by": True}, "idx": idx, "hostile": True}}


# ------------------------------------------------------------------------------------------------
# C20: one script, two runs (variant tells the harness how the second run differs)

def determinism_script(r, idx, fate_vec=None, variant=None):
    fam = r.choice(["streamdata", "lifecycle", "progress", "flow", "recovery", "auth"])
    if fam == "streamdata":
        s = streamdata_script(r, idx, fate_vec=fate_vec)
    elif fam == "lifecycle":
        s = lifecycle_random(r, idx)
    elif fam == "progress":
        s = progress_script(r, idx, fate_vec=fate_vec)
    elif fam == "flow":
        s = flow_script(r, idx, fate_vec=fate_vec)
    elif fam == "recovery":
        s = recovery_script(r, idx, fate_vec=fate_vec)
    else:
        s = auth_script(r, idx, fate_vec=fate_vec)
    variant = variant or r.choice(["same", "shift", "spurious"])
    # the built-in CID generators draw from the thread RNG by design; determinism is a statement
    # about the core given deterministic plug-ins
    s["cfg"]["cid_gen"] = "det"
    if variant == "spurious":
        s["cfg"]["spurious"] = False        # the second run turns it on
        # with a driver that services timers late, an extra handle_timeout finds other timers due and
        # legitimately does their work earlier than the first run did: equality of outputs is only
        # claimed for extra calls at instants where nothing else is due
        s["cfg"]["late_us"] = 0
    silence = None
    if r.random() < 0.25:
        # connection IDs with a lifetime and a peer that falls silent for a while: the rotation timer
        # keeps coming due although the retirements it waits for never arrive
        s["cfg"]["cid_lifetime_ms"] = r.choice([150, 400, 2000])
        silence = r.choice([0, 1])
    steps = []
    for st in s["steps"]:
        steps.append(st)
        if st["do"] in ("run", "run_until") and r.random() < 0.3:
            steps.append({"do": "spurious", "n": r.choice([0, 1]), "c": 0})
        if silence is not None and st["do"] == "run_until" and st.get("what") == "connected":
            steps += [{"do": "run", "us": r.choice([200000, 2500000])}, {"do": "blackhole", "n": silence, "on": True},
                      {"do": "run", "us": r.choice([3000000, 7000000])}, {"do": "blackhole", "n": silence, "on": False}]
            silence = None
    steps.append({"do": "spurious", "n": 0, "c": 0})
    steps.append({"do": "spurious", "n": 1, "c": 0})
    s["steps"] = steps
    s["tag"] = dict(s.get("tag", {}), family="determinism", base=fam, idx=idx, variant=variant,
                    shift_s=r.choice([1, 1000, 86400 * 365, 4000000000]))
    return s
