"""C16 scenario families: application datagrams (send / recv / wire / buffers / maximum size)."""
import scen
from scen import base_cfg

CORRUPT = ["corrupt:0:1", "corrupt:1:255", "corrupt:12:8", "corrupt:20:1", "corrupt:40:4", "corrupt:200:16",
           "corrupt:-1:1", "corrupt:-17:2", "corrupt:-30:128", "trunc:20", "trunc:60", "ext:1", "ext:40"]
DUPS = ["dup:0", "dup:3000", "dup:60000"]
DELAYS = ["delay:15000", "delay:40000", "delay:200000"]


def fate_list(r, vec):
    """concretise an abstract fate vector (spec/SeqGen_dgf5.cfg)"""
    m = {"ok": ["ok"], "x": ["x"], "dup": DUPS, "delay": DELAYS, "corrupt": CORRUPT}
    return [r.choice(m[f]) for f in vec]

# abstract operations enumerated by TLC (spec/SeqGen_dg3.cfg, SeqGen_dg4.cfg)
#   M exactly the reported maximum   P maximum + 1     N maximum - 1    Z empty
#   S small                         H half the send buffer
#   second letter: d = drop oldest to make room, b = do not drop (may answer Blocked)
#   F flush the sender (poll_transmit)   R receiver reads one   W 25 ms pass
OPS = ["Mb", "Md", "Pb", "Nd", "Zb", "Sb", "Hd", "F", "R", "W"]


def _payload(did, ln):
    """the harness payload convention (wire.rs dgram_payload)"""
    hdr = [(did >> 8) & 255, did & 255, (ln >> 8) & 255, ln & 255]
    return bytes(hdr[i] if i < 4 else (did + i) % 251 for i in range(ln))


def _quiet(t):
    """transport settings that keep the reported maximum predictable"""
    t.setdefault("idle_ms", 30000)
    return t


def _settle(cfg):
    return [{"do": "connect", "n": 1}, {"do": "run_until", "what": "connected", "max_us": 5000000},
            {"do": "run", "us": 120000}]


def ops_script(r, idx, seq, fate_vec=None):
    """One TLC-enumerated operation sequence, bursts without flushing in between."""
    sn = r.choice([1, 1, 0])          # sender node
    rn = 1 - sn
    imtu = r.choice([1200, 1452, 1452])
    st = _quiet({"initial_mtu": imtu, "mtud": False})
    rt = _quiet({"mtud": False})
    if imtu > 1200:
        st["min_mtu"] = 1200
    cids = r.choice([(8, 8), (8, 8), (4, 20), (20, 4), (0, 8), (8, 0), (1, 5)])
    maxp = imtu - 30 - (cids[0] if sn == 1 else cids[1])
    sbuf = r.choice([2 * maxp, 2 * maxp, 3000, maxp, maxp + 1, 100, 0, 1 << 20])
    st["dgram_send_buf"] = sbuf
    rt["dgram_recv_buf"] = r.choice([1250000, 65535, 3000, 2 * maxp, 1500, maxp + 9, maxp + 8, maxp])
    cfg = base_cfg(r, server_cid_len=cids[0], client_cid_len=cids[1])
    cfg["server"], cfg["client"] = (st, rt) if sn == 0 else (rt, st)
    steps = _settle(cfg)
    if fate_vec is not None:
        steps.append({"do": "fates", "dir": "s2c" if sn == 0 else "c2s", "list": fate_list(r, fate_vec)})
    did = 0
    rep = r.choice([1, 1, 2, 3])
    sends = 0
    for sym in seq:
        if sym == "F":
            steps.append({"do": "flush", "n": sn})
        elif sym == "R":
            steps.append({"do": "op", "n": rn, "c": 0, "op": {"op": "recv_dgram"}})
        elif sym == "W":
            steps.append({"do": "run", "us": 25000})
        else:
            for _ in range(rep if sym[0] in "MNSH" else 1):
                did += 1
                sends += 1
                op = {"op": "send_dgram", "did": did, "drop": sym[1] == "d"}
                k = sym[0]
                if k == "M":
                    op["rel"] = 0
                elif k == "P":
                    op["rel"] = 1
                elif k == "N":
                    op["rel"] = -1
                elif k == "Z":
                    op["len"] = 0
                elif k == "S":
                    op["len"] = r.choice([1, 2, 3, 4, 5, 63, 64, 100])
                else:
                    op["len"] = max(1, sbuf // 2) if sbuf < (1 << 19) else 700
                steps.append({"do": "op_noflush", "n": sn, "c": 0, "op": op})
    steps += [{"do": "flush", "n": sn}, {"do": "op", "n": sn, "c": 0, "op": {"op": "dgram_query"}},
              {"do": "run", "us": 300000}]
    steps += [{"do": "op", "n": rn, "c": 0, "op": {"op": "recv_dgram"}} for _ in range(sends + 1)]
    steps.append({"do": "run", "us": 100000})
    return {"cfg": cfg, "steps": steps, "tag": {"family": "dg-ops", "seq": list(seq), "idx": idx,
                                                 "fates": fate_vec is not None}}


def overflow_script(r, idx, fate_vec=None):
    """Receiver with a tiny buffer that reads late: the oldest must go first."""
    sn = r.choice([1, 0])
    rn = 1 - sn
    w = r.choice([0, 1, 2, 9, 10, 12, 50, 100, 300, 1000, 1200, 2400, 3000, 5000])
    st = _quiet({"initial_mtu": 1452, "min_mtu": 1200, "mtud": r.random() < 0.3})
    rt = _quiet({"dgram_recv_buf": w})
    cfg = base_cfg(r)
    cfg["server"], cfg["client"] = (st, rt) if sn == 0 else (rt, st)
    if fate_vec is None and r.random() < 0.5:
        cfg["loss_pct"] = r.choice([0, 5, 20])
        cfg["dup_pct"] = r.choice([0, 10, 30])
        cfg["jitter_us"] = r.choice([0, 3000, 40000])
    if r.random() < 0.3:
        cfg["max_datagrams"] = r.choice([1, 2])
    steps = _settle(cfg)
    if fate_vec is not None:
        steps.append({"do": "fates", "dir": "s2c" if sn == 0 else "c2s", "list": fate_list(r, fate_vec)})
    cap = max(0, w - 9)
    sizes = sorted({0, 1, 2, 3, 4, 5, cap // 3, cap // 2, cap - 1 if cap else 0, cap, cap + 1, min(cap, 1405)})
    n = r.choice([4, 8, 12, 20])
    for did in range(1, n + 1):
        ln = r.choice(sizes)
        steps.append({"do": r.choice(["op", "op", "op_noflush"]), "n": sn, "c": 0,
                      "op": {"op": "send_dgram", "did": did, "len": ln, "drop": r.random() < 0.5}})
        k = r.random()
        if k < 0.25:
            steps.append({"do": "run", "us": r.choice([1000, 12000, 50000])})
        elif k < 0.4:
            steps.append({"do": "op", "n": rn, "c": 0, "op": {"op": "recv_dgram"}})
    steps += [{"do": "flush", "n": sn}, {"do": "run", "us": 400000}]
    steps += [{"do": "op", "n": rn, "c": 0, "op": {"op": "recv_dgram"}} for _ in range(n + 1)]
    return {"cfg": cfg, "steps": steps, "tag": {"family": "dg-overflow", "window": w, "idx": idx}}


def app_script(r, idx, fate_vec=None):
    """Event-driven applications on both sides: Blocked / DatagramsUnblocked cycles, stream data
    sharing the packets, congestion-limited periods, loss / duplication / reordering."""
    cfg = base_cfg(r, server=scen.tcfg_menu(r), client=scen.tcfg_menu(r))
    for t in (cfg["server"], cfg["client"]):
        t["idle_ms"] = 30000
        t.pop("keep_alive_ms", None)
        if r.random() < 0.6:
            t["dgram_send_buf"] = r.choice([0, 100, 1000, 1200, 2500, 5000, 20000])
        if r.random() < 0.4:
            t["dgram_recv_buf"] = r.choice([1200, 3000, 20000, 65535, 70000])
        if r.random() < 0.3:
            t["initial_mtu"] = 1452
            t["min_mtu"] = 1200
    if fate_vec is not None:
        half = len(fate_vec) // 2
        pre = r.choice([0, 4, 6])
        cfg["fates_c2s"] = ["ok"] * pre + fate_list(r, fate_vec[:half])
        cfg["fates_s2c"] = ["ok"] * pre + fate_list(r, fate_vec[half:])
    else:
        cfg["fates_c2s"] = scen.fates(r, 20)
        cfg["fates_s2c"] = scen.fates(r, 20)
        if r.random() < 0.5:
            cfg["loss_pct"] = r.choice([2, 10, 25])
            cfg["dup_pct"] = r.choice([0, 5, 15])
        if r.random() < 0.4:
            cfg["jitter_us"] = r.choice([2000, 30000])
    if r.random() < 0.3:
        cfg["max_datagrams"] = r.choice([1, 2, 3])
    steps = [{"do": "connect", "n": 1}]

    def app(n):
        a = scen.workload(r, n=n, c=0) if r.random() < 0.6 else {"do": "app", "n": n, "c": 0, "streams": []}
        a.pop("maxsize", None)
        if a.get("read_max", 1 << 20) < 900:
            a["read_max"] = 1 << 20
        a["dgrams"] = r.choice([3, 10, 25, 60])
        a["dgram_sizes"] = [r.choice([0, 1, 3, 4, 100, 600, 1000, 1150, 1162, 1163, 1200, 1400, 1414, 1415])
                            for _ in range(r.choice([1, 2, 5]))]
        a["dgram_drop"] = r.random() < 0.4
        a["dgram_skip"] = True
        a["dgram_base"] = 1000 * n
        if r.random() < 0.25:
            a["dgram_read"] = False
        return a

    steps.append(app(1))
    if r.random() < 0.6:
        steps.append({"do": "run_until", "what": "connected", "max_us": 20000000})
        steps.append(app(0))
    for _ in range(r.choice([0, 0, 1, 2])):
        steps.append({"do": "run", "us": r.choice([1000, 8000, 21000, 60000])})
        k = r.random()
        if k < 0.3:
            steps.append({"do": "op", "n": r.choice([0, 1]), "c": 0, "op": {"op": "key_update"}})
        elif k < 0.6:
            steps.append({"do": "set", "key": "link_mtu", "v": r.choice([1200, 1300, 1452, 1500])})
        else:
            steps.append({"do": "op", "n": r.choice([0, 1]), "c": 0, "op": {"op": "dgram_query"}})
    steps.append({"do": "run_until", "what": "apps", "max_us": 40000000})
    steps.append({"do": "run", "us": 300000})
    for n in (0, 1):
        steps += [{"do": "op", "n": n, "c": 0, "op": {"op": "recv_dgram"}} for _ in range(3)]
    return {"cfg": cfg, "steps": steps, "tag": {"family": "dg-app", "idx": idx, "fates": fate_vec is not None}}


LIMITS = [-1, 0, 1, 2, 3, 8, 9, 10, 11, 12, 20, 73, 74, 100, 1000, 1171, 1172, 1200, 1422, 1423, 1424, 1500,
          16383, 16384, 65535, 65536, 70000, 1250000]


def limits_script(r, idx):
    """The peer's limit (genuine configuration or rewritten transport parameter) and local disabling."""
    cfg = base_cfg(r)
    st = _quiet({"mtud": False})
    ct = _quiet({"mtud": False, "initial_mtu": r.choice([1200, 1452]), "min_mtu": 1200})
    lim = r.choice(LIMITS)
    if r.random() < 0.5:
        st["dgram_recv_buf"] = lim
    elif lim >= 0:
        cfg["server_tp"] = [[0x20, lim]]
    else:
        cfg["server_tp"] = [[0x20, -1]]
    if r.random() < 0.15:
        ct["dgram_recv_buf"] = -1       # locally disabled
    if r.random() < 0.3:
        ct["dgram_send_buf"] = r.choice([0, 1, 10, 1000])
    if r.random() < 0.3:
        cfg["client_tp"] = [[0x20, r.choice([0, 1, 5, 100])]]
    cfg["server"], cfg["client"] = st, ct
    if r.random() < 0.4:
        cfg["server_cid_len"], cfg["client_cid_len"] = r.choice([(4, 20), (20, 4), (0, 8), (8, 0), (3, 7), (20, 20)])
    steps = [{"do": "connect", "n": 1}]
    did = 0
    if r.random() < 0.3:
        # before the peer's parameters are known
        did += 1
        steps.append({"do": "op", "n": 1, "c": 0, "op": {"op": "send_dgram", "did": did, "len": r.choice([0, 10]), "drop": True}})
    steps += [{"do": "run_until", "what": "connected", "max_us": 5000000}, {"do": "run", "us": 120000},
              {"do": "op", "n": 1, "c": 0, "op": {"op": "dgram_query"}}]
    for _ in range(r.choice([3, 5, 8])):
        did += 1
        op = {"op": "send_dgram", "did": did, "drop": r.random() < 0.5}
        k = r.random()
        if k < 0.5:
            op["rel"] = r.choice([-2, -1, 0, 0, 1, 2])
        else:
            op["len"] = r.choice([0, 0, 1, 2, 3, 4, max(0, lim - 9), max(0, lim - 3), max(0, lim), 1162, 1414, 1415])
        steps.append({"do": r.choice(["op", "op_noflush"]), "n": r.choice([1, 1, 1, 0]), "c": 0, "op": op})
    steps += [{"do": "flush", "n": 1}, {"do": "flush", "n": 0}, {"do": "run", "us": 300000}]
    for n in (0, 1):
        steps += [{"do": "op", "n": n, "c": 0, "op": {"op": "recv_dgram"}} for _ in range(4)]
    return {"cfg": cfg, "steps": steps, "tag": {"family": "dg-limits", "limit": lim, "idx": idx}}


def mtu_script(r, idx):
    """The maximum follows the path MTU: discovery raises it, a shrinking link (black hole) lowers it
    and discards what no longer fits; migration restarts the estimate."""
    cfg = base_cfg(r)
    fam = r.choice(["raise", "blackhole", "blackhole", "migrate"])
    sn = r.choice([1, 0]) if fam != "migrate" else r.choice([0, 0, 1])
    rn = 1 - sn
    st = _quiet({})
    rt = _quiet({})
    steps = []
    if fam == "raise":
        st.update({"initial_mtu": 1200, "mtud": True, "mtud_upper": r.choice([1452, 1400, 1300])})
        cfg["link_mtu"] = r.choice([1500, 1400, 1350])
    elif fam == "blackhole":
        st.update({"initial_mtu": r.choice([1452, 1400]), "min_mtu": 1200, "mtud": r.random() < 0.5,
                   "cc": r.choice(["fixed:3000", "fixed:6000", "newreno", "fixed:1000000"])})
        st["dgram_send_buf"] = r.choice([1 << 20, 6000, 20000])
    else:
        st.update({"initial_mtu": 1200, "mtud": True})
        rt.update({"initial_mtu": 1200, "mtud": True})
        if r.random() < 0.5:
            st["cc"] = r.choice(["fixed:3000", "fixed:6000"])
        if r.random() < 0.4:
            st["dgram_send_buf"] = r.choice([3000, 6000, 20000])
    cfg["server"], cfg["client"] = (st, rt) if sn == 0 else (rt, st)
    steps += _settle(cfg)
    did = 0

    def burst(k, sizes):
        nonlocal did
        out = []
        for _ in range(k):
            did += 1
            z = r.choice(sizes)
            op = {"op": "send_dgram", "did": did, "drop": r.random() < 0.3}
            if isinstance(z, str):
                op["rel"] = int(z)
            else:
                op["len"] = z
            out.append({"do": r.choice(["op", "op_noflush"]), "n": sn, "c": 0, "op": op})
        return out

    if fam == "raise":
        for _ in range(r.choice([3, 6])):
            steps += burst(r.choice([1, 3]), ["0", "0", "-1", "1", 1162, 1163, 1200, 1300, 100])
            steps.append({"do": "run", "us": r.choice([30000, 200000, 700000])})
    elif fam == "blackhole":
        steps.append({"do": "run", "us": 300000})
        steps += burst(r.choice([2, 5]), ["0", 1162, 100])
        steps.append({"do": "run", "us": 100000})
        steps.append({"do": "set", "key": "link_mtu", "v": r.choice([1200, 1250, 1300])})
        for _ in range(r.choice([4, 8, 12])):
            steps += burst(r.choice([2, 4, 8]), ["0", "0", 1162, 1162, 1161, 1163, 1300, 600, 100, 3])
            steps.append({"do": "run", "us": r.choice([5000, 30000, 120000, 400000])})
            if r.random() < 0.3:
                steps.append({"do": "op", "n": sn, "c": 0, "op": {"op": "dgram_query"}})
    else:
        steps.append({"do": "run", "us": r.choice([300000, 1500000])})   # discovery raises the MTU
        steps += burst(r.choice([2, 6, 10]), ["0", "0", 1162, 100])
        if r.random() < 0.5:
            steps.append({"do": "set", "key": "link_mtu", "v": r.choice([1250, 1300, 1400])})
        steps.append({"do": "migrate", "n": 1, "addr": [r.choice([1, 3]), r.choice([1, 2]), r.choice([50000, 7000])]})
        if sn == 1 or r.random() < 0.5:
            steps.append({"do": "op", "n": 1, "c": 0, "op": {"op": "ping"}})
        for _ in range(r.choice([3, 6])):
            steps.append({"do": "run", "us": r.choice([5000, 30000, 200000, 900000])})
            steps += burst(r.choice([1, 3]), ["0", "0", 1162, 1163, 100])
            steps.append({"do": "op", "n": sn, "c": 0, "op": {"op": "dgram_query"}})
    steps += [{"do": "flush", "n": sn}, {"do": "run", "us": 3000000},
              {"do": "op", "n": sn, "c": 0, "op": {"op": "dgram_query"}}]
    steps += [{"do": "op", "n": rn, "c": 0, "op": {"op": "recv_dgram"}} for _ in range(did + 1)]
    return {"cfg": cfg, "steps": steps, "tag": {"family": "dg-mtu-" + fam, "idx": idx}}


def hostile_script(r, idx):
    """An authenticated peer that ignores the advertised limit: DATAGRAM frames around the victim's
    buffer size appended to a genuine packet (man in the middle with the keys)."""
    v = r.choice(["s", "c"])
    w = r.choice([-1, 0, 1, 10, 100, 500, 1000])
    victim = _quiet({"dgram_recv_buf": w, "mtud": False})
    other = _quiet({"mtud": False})
    cfg = base_cfg(r)
    cfg["server"], cfg["client"] = (victim, other) if v == "s" else (other, victim)
    base = max(w, 0)
    ln = max(0, base + r.choice([-4, -3, -2, -1, 0, 1, 2, 40]))
    if ln > 1100:
        ln = 1100
    did = 7000 + idx % 1000
    body = _payload(did, ln)
    fb = bytes([0x31]) + scen._var(ln) + body
    n_extra = r.choice([0, 0, 1])
    for _ in range(n_extra):
        fb += bytes([0x31]) + scen._var(3) + _payload(did + 1, 3)
    attacker_n, victim_n = (1, 0) if v == "s" else (0, 1)
    steps = _settle(cfg)
    steps += [{"do": "mitm", "dir": "c2s" if v == "s" else "s2c", "nth_short": 0, "mode": "append", "hex": fb.hex()},
              {"do": "op", "n": attacker_n, "c": 0, "op": {"op": "ping"}},
              {"do": "run", "us": 300000}]
    steps += [{"do": "op", "n": victim_n, "c": 0, "op": {"op": "recv_dgram"}} for _ in range(3)]
    steps.append({"do": "run", "us": 300000})
    return {"cfg": cfg, "steps": steps, "tag": {"family": "dg-hostile", "window": w, "len": ln, "idx": idx,
                                                 "hostile": True}}


def burst_script(r, idx):
    """Back-to-back bursts of datagrams of arbitrary sizes: every way of filling a packet with whole
    datagrams occurs, including the ones where exactly one or two bytes are left over."""
    sn = r.choice([1, 1, 0])
    imtu = r.choice([1200, 1452])
    st = _quiet({"initial_mtu": imtu, "mtud": False, "dgram_send_buf": 1 << 20})
    if imtu > 1200:
        st["min_mtu"] = 1200
    if r.random() < 0.3:
        st["pad_to_mtu"] = True
    rt = _quiet({"mtud": False})
    cfg = base_cfg(r)
    cfg["server"], cfg["client"] = (st, rt) if sn == 0 else (rt, st)
    cfg["max_datagrams"] = r.choice([1, 3, 10])
    steps = _settle(cfg)
    did = 0
    for _ in range(r.choice([2, 4, 8])):
        for _ in range(r.choice([3, 6, 12])):
            did += 1
            steps.append({"do": "op_noflush", "n": sn, "c": 0,
                          "op": {"op": "send_dgram", "did": did, "len": r.randrange(0, imtu - 40), "drop": False}})
        steps.append({"do": "flush", "n": sn})
        steps.append({"do": "run", "us": r.choice([30000, 100000])})
    steps += [{"do": "run", "us": 300000}]
    steps += [{"do": "op", "n": 1 - sn, "c": 0, "op": {"op": "recv_dgram"}} for _ in range(did + 1)]
    return {"cfg": cfg, "steps": steps, "tag": {"family": "dg-burst", "idx": idx}}
