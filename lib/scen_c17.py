"""C17 script generators: early (0-RTT) workloads x acceptance x Retry x fate vectors x parameter relations.

Connection naming: client node 1 ("A") holds the session ticket (cfg.ticket), client node 2 ("B", only with
ref=True) connects afresh and repeats A's post-handshake calls one by one (self-composition reference).
"""
import copy

from scen import base_cfg

# fate names as enumerated by SeqGen -> simulator fates (the delay / duplicate distance is drawn per run)
def fate_map(r):
    return {"ok": "ok", "x": "x", "dup": "dup:%d" % r.choice([0, 3000, 60000, 400000]),
            "delay": "delay:%d" % r.choice([15000, 40000, 120000, 400000])}


def ekey(sid):
    return (sid * 7 + 3) % 251


def pkey(sid):
    return (sid * 7 + 103) % 251


def cid(d, idx):
    return 4 * idx + 2 * d


# ------------------------------------------------------------------------------------------------
# server transport configurations: the remembered one (ticket_server) and the new one (server)

def rem_tcfg(r):
    t = {"max_bidi": r.choice([1, 2, 3, 100]), "max_uni": r.choice([0, 1, 2, 100])}
    rw = r.choice([None, 1500, 4000, 20000])
    if rw:
        t["recv_window"] = rw
    sw = r.choice([None, 800, 2500, 10000])
    if sw:
        t["stream_recv_window"] = sw
    dg = r.choice([None, None, 300, 2000, -1])
    if dg is not None:
        t["dgram_recv_buf"] = dg
    return t


DEF = {"max_bidi": 100, "max_uni": 100, "recv_window": 1 << 40, "stream_recv_window": 1250000, "dgram_recv_buf": 65535}


def bigger(r, k, v):
    if k in ("max_bidi", "max_uni"):
        return v + r.choice([1, 2, 50])
    if k == "dgram_recv_buf":
        return 65535 if v < 0 or v >= 2000 else v * r.choice([2, 10])
    return v * r.choice([2, 3]) + r.choice([0, 1, 700])


def smaller(r, k, v):
    if k in ("max_bidi", "max_uni"):
        return max(0, v - r.choice([1, 1, 2]))
    if k == "dgram_recv_buf":
        return r.choice([-1, 200]) if v > 200 or v < 0 else -1
    if v > (1 << 30):
        return r.choice([1500, 4000, 20000])
    return max(1, v // r.choice([2, 3]) - r.choice([0, 1]))


def new_tcfg(r, rem, relation):
    """relation: equal | larger | smaller | mixed (at least one smaller, some larger)"""
    t = copy.deepcopy(rem)
    if relation == "equal":
        return t
    keys = list(DEF)
    if relation == "larger":
        for k in r.sample(keys, r.choice([1, 2, 5])):
            v = rem.get(k, DEF[k])
            if v is None or v >= DEF[k] and k != "dgram_recv_buf":
                continue
            t[k] = bigger(r, k, v)
        return t
    down = r.sample(keys, r.choice([1, 1, 2, 5]))
    for k in down:
        v = rem.get(k, DEF[k])
        nv = smaller(r, k, v)
        t[k] = nv
    if relation == "mixed":
        for k in keys:
            if k not in down and r.random() < 0.5:
                v = rem.get(k, DEF[k])
                if v < DEF[k]:
                    t[k] = bigger(r, k, v)
    return t


def lim_of(t, k):
    v = t.get(k)
    return DEF[k] if v is None else v


# ------------------------------------------------------------------------------------------------
# workloads

def op(n, o, flush=True):
    return {"do": "op" if flush else "op_noflush", "n": n, "c": 0, "op": o}


def early_workload(r, rem, budget_us, heavy_dgrams=False):
    """Calls the client makes before the handshake can have completed. Returns (steps, streams) where
    streams = [(id, dir)] the script tried to open (whether the open succeeded is for the spec to say)."""
    steps = []
    spent = 0

    def gap():
        nonlocal spent
        if r.random() < 0.35 and budget_us > 2000:
            d = r.choice([1, 500, 3000, budget_us // 4, budget_us // 2])
            if spent + d < budget_us:
                spent += d
                steps.append({"do": "run", "us": d})

    nb = r.choice([0, 1, 1, 2, 3, min(4, lim_of(rem, "max_bidi") + 1)])
    nu = r.choice([0, 0, 1, 2, min(4, lim_of(rem, "max_uni") + 1)])
    streams = [(cid(0, i), 0) for i in range(nb)] + [(cid(1, i), 1) for i in range(nu)]
    r.shuffle(streams)
    opens = sorted(streams, key=lambda s: (s[1], s[0]))
    # opens must come in id order per direction; interleave directions randomly
    bi = [s for s in opens if s[1] == 0]
    un = [s for s in opens if s[1] == 1]
    order = []
    while bi or un:
        src = bi if (bi and (not un or r.random() < 0.5)) else un
        order.append(src.pop(0))
    sw = lim_of(rem, "stream_recv_window")
    cw = lim_of(rem, "recv_window")
    sizes = [1, 100, 700, 1200, 3000, max(1, sw - 1), sw, sw + 1, max(1, cw - 1), cw + 1]
    sizes = [s for s in sizes if s <= 20000]
    pending = []
    for (sid, d) in order:
        steps.append(op(1, {"op": "open", "dir": d}, flush=r.random() < 0.7))
        gap()
        plan = []
        for _ in range(r.choice([0, 1, 1, 1, 2, 3])):
            plan.append({"op": "write", "id": sid, "len": r.choice(sizes), "key": ekey(sid), "off": "auto"})
        k = r.random()
        if k < 0.5:
            plan.append({"op": "finish", "id": sid})
        elif k < 0.65:
            plan.append({"op": "reset", "id": sid, "code": r.choice([0, 7, 300])})
        if d == 0 and r.random() < 0.15:
            plan.append({"op": "stop", "id": sid, "code": r.choice([1, 9])})
        if d == 0 and r.random() < 0.1:
            plan.append({"op": "read", "id": sid})
        if plan:
            pending.append(plan)
    # interleave the per-stream plans (order inside a stream kept)
    while pending:
        p = r.choice(pending)
        o = p.pop(0)
        steps.append(op(1, o, flush=r.random() < 0.7))
        if not p:
            pending.remove(p)
        gap()
    ndg = r.choice([0, 0, 1, 2, 3]) if not heavy_dgrams else r.choice([14, 20, 30])
    for i in range(ndg):
        ln = r.choice([4, 10, 100, 290, 310, 1000]) if not heavy_dgrams else r.choice([900, 1000, 1100])
        steps.append(op(1, {"op": "send_dgram", "len": ln, "did": 1 + i}, flush=r.random() < 0.7))
        gap()
    steps.append({"do": "flush", "n": 1, "c": 0})
    return steps, streams


def both(nodes, o):
    return [op(n, o) for n in nodes]


def post_block(r, nodes, new, early_streams, rnd, rejected):
    """Calls after the handshake. `nodes` = [1] or [1, 2]: with the fresh reference every call is made on A and
    then on B. Keys: streams (re)opened after a rejection carry the post key, everything else the id's key."""
    steps = []
    key = pkey if rejected else ekey
    if rnd == 0:
        # early handles first: they must report the rejection (or simply continue after acceptance)
        for (sid, d) in early_streams:
            k = r.random()
            if k < 0.5:
                steps += both(nodes, {"op": "write", "id": sid, "len": r.choice([1, 50, 2000]), "key": ekey(sid), "off": "auto"})
            elif k < 0.65:
                steps += both(nodes, {"op": "finish", "id": sid})
            elif k < 0.75:
                steps += both(nodes, {"op": "reset", "id": sid, "code": 5})
            elif k < 0.85 and d == 0:
                steps += both(nodes, {"op": "read", "id": sid})
            elif k < 0.9 and d == 0:
                steps += both(nodes, {"op": "stop", "id": sid, "code": 3})
    lb, lu = lim_of(new, "max_bidi"), lim_of(new, "max_uni")
    opened = []
    if rnd == 0:
        for d, lim in ((0, lb), (1, lu)):
            for i in range(r.choice([0, 1, 2, min(5, lim + 1), min(5, lim + 1)])):
                steps += both(nodes, {"op": "open", "dir": d})
                opened.append((cid(d, i), d))
    sw = lim_of(new, "stream_recv_window")
    cw = lim_of(new, "recv_window")
    sizes = [1, 100, 1200, 3000, max(1, sw - 1), sw, sw + 1, max(1, cw - 1), cw + 1, 6000]
    sizes = [s for s in sizes if s <= 20000]
    return steps, opened, sizes, key


def post_writes(r, nodes, streams, sizes, key, written, finish_p):
    steps = []
    for (sid, d) in streams:
        for _ in range(r.choice([0, 1, 1, 2])):
            steps += both(nodes, {"op": "write", "id": sid, "len": r.choice(sizes), "key": key(sid), "off": "auto"})
        if r.random() < finish_p:
            steps += both(nodes, {"op": "finish", "id": sid})
    return steps


# ------------------------------------------------------------------------------------------------

FAMILIES = ["accept", "accept", "reject", "reject", "reject-ref", "reject-ref", "incompat", "fresh"]


def zerortt_script(r, idx, fate_vec=None, family=None):
    fam = family or r.choice(FAMILIES)
    ref = fam == "reject-ref"
    lat = r.choice([10000, 40000, 100000, 100000])
    cfg = base_cfg(r, latency_us=lat)
    cfg["ticket"] = fam != "fresh"
    cfg["accept_early"] = fam in ("accept", "incompat")
    rem = rem_tcfg(r)
    if fam == "accept":
        rel = r.choice(["equal", "equal", "larger"])
    elif fam == "incompat":
        rel = r.choice(["smaller", "mixed"])
    elif fam == "fresh":
        rel = "equal"
    else:
        rel = r.choice(["equal", "larger", "smaller", "smaller", "mixed"])
    new = new_tcfg(r, rem, rel)
    def eff(t, k):
        v = lim_of(t, k)
        return min(65535, v) if k == "dgram_recv_buf" else v
    if fam == "incompat" and not any(eff(new, k) < eff(rem, k) for k in DEF):
        new["recv_window"] = 1000
    cfg["server"] = dict(new, idle_ms=120000)
    cfg["ticket_server"] = dict(rem, idle_ms=120000)
    client = {}
    if r.random() < 0.5:
        client["send_window"] = r.choice([1200, 3000, 6000])
    irtt = r.choice([None, None, 100, 30])
    if irtt:
        client["initial_rtt_ms"] = irtt
    if ref or r.random() < 0.3:
        client["mtud"] = False
    client["idle_ms"] = 120000
    cfg["client"] = client
    policy = r.choice(["accept", "accept", "retry", "validate", "wait"])
    cfg["incoming"] = policy
    if ref:
        cfg["clients"] = 2
    fm = fate_map(r)
    if fate_vec is not None:
        cfg["fates_c2s"] = [fm[f] for f in fate_vec]
    elif r.random() < 0.7:
        cfg["fates_c2s"] = [fm[r.choice(["ok", "ok", "x", "dup", "delay"])] for _ in range(r.choice([3, 6, 10]))]
    if r.random() < 0.4:
        cfg["fates_s2c"] = [fm[r.choice(["ok", "ok", "ok", "x", "dup", "delay"])] for _ in range(r.choice([2, 4]))]
    if r.random() < 0.15:
        cfg["max_datagrams"] = r.choice([1, 2])
    mode = r.choice(["auto", "late", "points"])
    heavy = r.random() < 0.12
    if heavy and r.random() < 0.7:
        # a send buffer the early datagrams fill (or overflow): whatever a rejection discards, it must
        # also give the room back - the calls after the handshake refuse to evict (drop false)
        cfg["client"]["dgram_send_buf"] = r.choice([8000, 16000, 40000])

    steps = []
    if mode == "auto":
        steps.append({"do": "app", "n": 1, "c": 0, "streams": []})
    steps.append({"do": "connect", "n": 1})
    e_steps, e_streams = early_workload(r, rem if cfg["ticket"] else {"max_bidi": 0, "max_uni": 0}, lat - 1000, heavy)
    steps += e_steps
    t_acc = None
    if policy == "wait":
        t_acc = lat + r.choice([1, 30000, 150000, 1200000])
        steps.append({"do": "run", "us": t_acc})
        steps.append({"do": "accept_waiting", "n": 0, "how": r.choice(["accept", "accept", "retry"]), "then": "accept"})
    elif policy in ("retry", "validate") and r.random() < 0.5:
        # more early calls after the Retry has arrived (the handshake cannot complete before 4 x latency)
        steps.append({"do": "run", "us": 2 * lat + r.choice([1, lat // 2])})
        more, more_streams = [], []
        nxt = {0: len([s for s in e_streams if s[1] == 0]), 1: len([s for s in e_streams if s[1] == 1])}
        for _ in range(r.choice([1, 2, 3])):
            k = r.random()
            if k < 0.4:
                d = r.choice([0, 1])
                more.append(op(1, {"op": "open", "dir": d}))
                sid = cid(d, nxt[d])
                nxt[d] += 1
                more_streams.append((sid, d))
                more.append(op(1, {"op": "write", "id": sid, "len": r.choice([1, 500, 1500]), "key": ekey(sid), "off": "auto"}))
            elif k < 0.7:
                more.append(op(1, {"op": "send_dgram", "len": r.choice([10, 500]), "did": 50 + len(more)}))
            elif e_streams:
                sid, d = r.choice(e_streams)
                more.append(op(1, {"op": r.choice(["finish", "reset"]), "id": sid, "code": 2}))
        steps += more
        e_streams = e_streams + more_streams
    if mode == "points":
        steps.append({"do": "run", "us": r.choice([lat, lat + 30000, 2 * lat])})
        steps.append({"do": "drain", "n": 0})
    steps.append({"do": "run_until", "what": "connected", "max_us": 12000000})
    steps.append({"do": "run", "us": r.choice([0, 1000, 4000000])})
    if mode == "points":
        steps.append({"do": "drain", "n": 0})
    nodes = [1]
    if ref:
        steps.append({"do": "connect", "n": 2})
        if policy == "wait":
            steps.append({"do": "run", "us": lat + 1})
            steps.append({"do": "accept_waiting", "n": 0, "how": "accept", "then": "accept"})
        steps.append({"do": "run_until", "what": "connected", "max_us": 12000000})
        steps.append({"do": "run", "us": 3000000})
        nodes = [1, 2]
    rejected = fam in ("reject", "reject-ref")
    b0, opened, sizes, key = post_block(r, nodes, new, e_streams, 0, rejected)
    steps += b0
    # streams that exist after the handshake: the ones opened now, plus (when nothing was rejected) the early ones
    live = opened if rejected else list(dict.fromkeys(e_streams + [(s, d) for (s, d) in opened]))
    if not rejected:
        # ids opened now continue the early numbering: the spec tells which calls hit which stream; the key
        # is a function of the id in this family
        nb = len([s for s in e_streams if s[1] == 0])
        nu = len([s for s in e_streams if s[1] == 1])
        live = list(e_streams) + [(cid(0, nb + i), 0) for i in range(4)] + [(cid(1, nu + i), 1) for i in range(4)]
        live = r.sample(live, min(len(live), 5))
    steps += post_writes(r, nodes, live, sizes, key, None, 0.4)
    for i in range(r.choice([0, 0, 1, 3]) if not heavy else 3):
        steps += both(nodes, {"op": "send_dgram", "len": r.choice([4, 100, 250, 800]), "did": 100 + i, "drop": not heavy})
    steps.append({"do": "run", "us": 3000000})
    steps.append({"do": "drain", "n": 0})
    steps.append({"do": "run", "us": 1500000})
    # second round: credit has been replenished by the reading server application
    steps += post_writes(r, nodes, live, sizes, key, None, 0.8)
    for i in range(r.choice([0, 1])):
        steps += both(nodes, {"op": "send_dgram", "len": r.choice([4, 100]), "did": 200 + i})
    steps.append({"do": "run", "us": 4000000})
    steps.append({"do": "drain", "n": 0})
    # long tail: a handshake that needed many probe timeouts leaves data to be recovered late
    steps.append({"do": "run", "us": 30000000})
    steps.append({"do": "drain", "n": 0})
    steps.append({"do": "run", "us": 1500000})
    steps.append({"do": "drain", "n": 0})
    return {"cfg": cfg, "steps": steps,
            "tag": {"family": "zerortt-" + fam, "rel": rel, "policy": policy, "mode": mode, "idx": idx}}
