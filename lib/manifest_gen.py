#!/usr/bin/env python3
"""Regenerate MANIFEST.json from the registry of implemented checks (lib/claims.json)."""
import json, os
ROOT = os.path.dirname(os.path.dirname(os.path.abspath(__file__)))
props = [json.loads(l) for l in open(os.path.join(ROOT, "properties.jsonl"))]
claims = json.load(open(os.path.join(ROOT, "lib", "claims.json")))
checks = []
for pid in sorted(claims["claimed"]):
    c = claims["claimed"][pid]
    checks.append({
        "property_id": pid,
        "quick_cmd": "./check %s --tier quick" % pid,
        "thorough_cmd": "./check %s --tier thorough" % pid,
        "evidence_file": "evidence/%s.json" % pid,
        "replay_cmd_template": "./check %s --replay {path}" % pid,
        "engine": "tlc-trace-validation",
        "level_claimed": {"category": c.get("category", "model_checking"), "text": c["text"], "design_ref": "DESIGN.md §5 " + pid},
        "level_note": c["note"],
        "technique": c.get("technique", "TLA+ model checking (TLC) + TLC trace validation of executions recorded from the real code"),
    })
na = []
for p in props:
    if p["id"] not in claims["claimed"]:
        na.append({"property_id": p["id"], "reason": claims["not_applicable"].get(p["id"], "check not yet implemented in this revision; no claim made")})
m = {"version": 1,
     "setup_cmd": "for h in harness harness-udp harness-codec harness-async; do (cd $h && cargo build --release --offline) || exit 1; done && cd spec && for f in *.tla; do case $f in *Ind.tla) continue;; esac; tla-sany $f >/dev/null || exit 1; done",
     "hooks": {"guard": "cargo feature `verif-hooks` of quinn-proto (off by default)",
               "enable": "harness/qv-core, harness-codec and harness-async depend on /repo/quinn-proto by path with features=[\"bloom\",\"verif-hooks\"]; every check rebuilds its harness from /repo's working tree",
               "baseline_off_cmd": "cd /repo && cargo test --workspace --no-fail-fast --offline",
               "source_commits": claims["hook_commits"], "add_only": True},
     "engines": [{"name": "tlc-trace-validation", "path": "check", "serves_properties": sorted(claims["claimed"]),
                  "kind_free_text": "TLA+ specs in spec/ (design models, generators, trace specs); TLC exhaustive model checking, TLC-generated behaviours replayed into real quinn by the Rust harness in harness/, TLC trace validation of every recorded execution"}],
     "checks": checks, "not_applicable": na,
     "notes": "See DESIGN.md. known_findings.json lists open and fixed findings."}
json.dump(m, open(os.path.join(ROOT, "MANIFEST.json"), "w"), indent=1)
print("claimed:", sorted(claims["claimed"]))
