#!/bin/bash
# mutant_test.sh <ID> <patch.diff> [tier] : run /verif's check for <ID> against a scratch copy of /repo
# with the patch applied (so that /repo itself, which other jobs build from, is left alone).
# Prints the verdict lines; exit code = the check's exit code.
set -u
ID=$1; PATCH=$2; TIER=${3:-quick}
R=/tmp/wt_mt_repo_$ID; V=/tmp/wt_mt_verif_$ID
git -C /repo worktree remove --force $R >/dev/null 2>&1; rm -rf $R
git -C /repo worktree add -q $R HEAD || exit 2
git -C $R apply $PATCH || { echo "PATCH-DOES-NOT-APPLY"; git -C /repo worktree remove --force $R; exit 3; }
git -C /verif worktree remove --force $V >/dev/null 2>&1; rm -rf $V
git -C /verif worktree add -q --detach $V ${MT_REF:-HEAD} || exit 2
for f in $V/harness/qv-core/Cargo.toml $V/harness-udp/Cargo.toml $V/harness-codec/Cargo.toml $V/harness-async/Cargo.toml; do
  sed -i "s#\"/repo/#\"$R/#g" $f
done
sed -i "s#/verif/harness/qv-core#$V/harness/qv-core#g" $V/harness-async/Cargo.toml 2>/dev/null
# reuse compiled dependencies
for h in harness harness-udp harness-codec harness-async; do
  [ -d /verif/$h/target ] && cp -r /verif/$h/target $V/$h/target 2>/dev/null
done
cd $V && timeout ${MT_TIMEOUT:-2400} ./check $ID $TIER --seed ${MT_SEED:-1} 2>&1 | grep -E "^VIOLATION|^KNOWN-FINDING|^property=|^TOOL-ERROR|UnlistedDeviation" | cut -c1-400
rc=${PIPESTATUS[0]}
cd /
git -C /verif worktree remove --force $V >/dev/null 2>&1; rm -rf $V
git -C /repo worktree remove --force $R >/dev/null 2>&1; rm -rf $R
exit $rc
