"""C15 scenarios: a client that changes its address (port only / IP), an off-path attacker that
replays client datagrams from spoofed addresses (racing the genuine copy so that the replay carries
the highest packet number) and server datagrams towards the client, servers with migration on/off."""
from scen import base_cfg, fates, tcfg_menu, FATE_MAP


def migration_script(r, idx, ops, fate_vec=None):
    cfg = base_cfg(r, server=tcfg_menu(r), client=tcfg_menu(r))
    for side in ("server", "client"):
        cfg[side]["idle_ms"] = 10000
        cfg[side].pop("send_window", None)
        cfg[side].pop("pad_to_mtu", None)      # known C02 finding (padded ACK-only packets fill the window)
    cfg["client"]["keep_alive_ms"] = r.choice([300, 900])      # the client keeps sending from where it is
    cfg["migration"] = r.random() < 0.8
    cfg["late_us"] = r.choice([0, 0, 1000, 30000])
    cfg["keep_old_addrs"] = r.random() < 0.4       # multi-homed client: challenges to an old address still arrive
    if r.random() < 0.5:
        cfg["cid_lifetime_ms"] = r.choice([150, 400, 2000])
    if fate_vec is not None:
        half = len(fate_vec) // 2
        pre = r.choice([6, 10, 16])
        cfg["fates_c2s"] = ["ok"] * pre + [FATE_MAP[f] for f in fate_vec[:half]]
        cfg["fates_s2c"] = ["ok"] * pre + [FATE_MAP[f] for f in fate_vec[half:]]
    elif r.random() < 0.4:
        cfg["fates_c2s"] = ["ok"] * 6 + fates(r, 14, 0.25)
        cfg["fates_s2c"] = ["ok"] * 6 + fates(r, 14, 0.25)
    size = r.choice([20000, 80000, 200000])
    steps = [{"do": "connect", "n": 1},
             {"do": "app", "n": 1, "c": 0, "read_max": 1 << 20, "ordered": True,
              "streams": [{"dir": r.choice([0, 1]), "size": size, "chunk": 5000, "finish": True}]},
             {"do": "run_until", "what": "connected", "max_us": 10000000},
             {"do": "app", "n": 0, "c": 0, "read_max": 1 << 20, "ordered": True,
              "streams": [{"dir": r.choice([0, 1]), "size": size, "chunk": 5000, "finish": True}]}]
    home = [1, 1, 5000]          # any address works as "home": the first migrate defines where the client is
    cur = None
    k = 0
    for o in ops:
        steps.append({"do": "run", "us": r.choice([2000, 9000, 30000, 120000, 700000])})
        k += 1
        if o == "port":
            cur = [2, 1, 6000 + k]
            steps.append({"do": "migrate", "n": 1, "addr": cur})
            steps.append({"do": "op", "n": 1, "c": 0, "op": {"op": r.choice(["ping", "local_address_changed"])}})
        elif o == "ip":
            cur = [20 + k, 1, 6000]
            steps.append({"do": "migrate", "n": 1, "addr": cur})
            steps.append({"do": "op", "n": 1, "c": 0, "op": {"op": r.choice(["ping", "local_address_changed"])}})
        elif o == "back":
            cur = home
            steps.append({"do": "migrate", "n": 1, "addr": cur})
            steps.append({"do": "op", "n": 1, "c": 0, "op": {"op": "ping"}})
        elif o == "spoof":
            # the replay overtakes the genuine copy: it carries the highest packet number seen
            steps.append({"do": "op", "n": 1, "c": 0, "op": {"op": "ping"}})
            steps.append({"do": "replay", "dir": "c2s", "nth": -1, "from": [99, k, 9000 + k], "delay": 0})
        elif o == "spoof_silent":
            # ... and nothing else reaches the server for a while: validation must fail and the
            # server must return to the path it had
            steps.append({"do": "op", "n": 1, "c": 0, "op": {"op": "ping"}})
            steps.append({"do": "replay", "dir": "c2s", "nth": -1, "from": [96, k, 9300 + k], "delay": 0})
            steps.append({"do": "run", "us": 1})
            steps.append({"do": "blackhole", "n": 0, "on": True})
            steps.append({"do": "run", "us": r.choice([400000, 1500000])})
            steps.append({"do": "blackhole", "n": 0, "on": False})
        elif o == "spoof_old":
            steps.append({"do": "replay", "dir": "c2s", "nth": -1 - r.randrange(4), "from": [98, k, 9100 + k],
                          "delay": r.choice([0, 20000])})
        elif o == "s2c_spoof":
            steps.append({"do": "op", "n": 0, "c": 0, "op": {"op": "ping"}})
            steps.append({"do": "replay", "dir": "s2c", "nth": -1, "from": [97, k, 9200 + k], "delay": 0})
        elif o == "key":
            steps.append({"do": "op", "n": r.choice([0, 1]), "c": 0, "op": {"op": "key_update"}})
        elif o == "wait":
            steps.append({"do": "run", "us": r.choice([300000, 1500000])})
    steps.append({"do": "run_until", "what": "apps", "max_us": 40000000})
    for _ in range(3):
        steps.append({"do": "op", "n": 1, "c": 0, "op": {"op": "ping"}})
        steps.append({"do": "run", "us": 2500000})
    return {"cfg": cfg, "steps": steps, "tag": {"family": "migration", "idx": idx, "ops": list(ops)}}


def migration_random(r, idx):
    ops = [r.choice(["port", "ip", "back", "spoof", "spoof_silent", "spoof_old", "s2c_spoof", "wait", "key"]) for _ in range(r.choice([1, 2, 3, 6]))]
    return migration_script(r, idx, ops)


def migration_ackonly(r, idx):
    """A client that has nothing to say of its own: it receives a long transfer and only acknowledges.
    Its address changes in the middle (a NAT rebinding; the old address still receives), and from then
    on its acknowledgements - ordinary, non-probing packets - come from the new address: the server
    has to follow them there, validate the path and finish the transfer."""
    cfg = base_cfg(r, server={"idle_ms": 0, "cc": r.choice(["fixed:12000", "fixed:6000"])}, client={"idle_ms": 0, "recv_window": 1000000000, "stream_recv_window": 100000000})     # no credit updates: nothing but ACKs
    cfg["migration"] = True
    cfg["keep_old_addrs"] = True
    cfg["latency_us"] = r.choice([5000, 10000, 20000])
    steps = [{"do": "connect", "n": 1},
             {"do": "run_until", "what": "connected", "max_us": 10000000},
             {"do": "run", "us": 200000},
             {"do": "app", "n": 0, "c": 0, "read_max": 1 << 20, "ordered": True,
              "streams": [{"dir": r.choice([0, 1]), "size": r.choice([1000000, 2000000]), "chunk": 1 << 20, "finish": True}]}]
    # the transfer takes at least 0.8 s (window-limited): every address change falls into it
    for k in range(r.choice([1, 1, 2])):
        steps.append({"do": "run", "us": r.choice([30000, 80000, 150000])})
        steps.append({"do": "migrate", "n": 1, "addr": [r.choice([2, 30 + k]), 1, 6100 + k]})
    steps.append({"do": "run_until", "what": "apps", "max_us": 40000000})
    steps.append({"do": "run", "us": 3000000})
    return {"cfg": cfg, "steps": steps, "tag": {"family": "migration-ackonly", "idx": idx}}
