"""C09: datagrams reach the right connection; connections are isolated."""
import random

import props
import scen_c09
import verif as V

ASSUME = ["connection identity = per-run uid assigned by the harness when Endpoint::connect / accept returns; issuer of an ID = the connection whose packets first carried it as source ID / in NEW_CONNECTION_ID (independent decoder)",
          "bystander = connection of a client node no scripted fault was aimed at; it must complete its transfer and never report ConnectionLost",
          "payload keys differ per client node, so cross-connection data leaks also fail the StreamData content checks run on the same executions"]
VALS = [("routing", "RoutingTrace.tla", "RoutingTrace.cfg"), ("streamdata", "StreamDataTrace.tla", "StreamDataTrace.cfg")]


def check_C09(tier, seed):
    r = random.Random(seed * 7919 + 9)
    quick = tier == "quick"
    seqs, gst = V.gen("SeqGen.tla", "SeqGen_route4.cfg" if quick else "SeqGen_route5.cfg", "C09")
    n_seq = 400 if quick else 4000
    n_rand = 200 if quick else 1000
    scripts = [scen_c09.routing_script(r, i, s) for i, s in enumerate(props.sample(seqs, n_seq, r))]
    scripts += [scen_c09.routing_random(r, len(scripts) + i) for i in range(n_rand)]
    # several connections of one client endpoint to the same server: what is removed for one must not take a sibling's
    scripts += [scen_c09.routing_siblings(r, len(scripts) + i) for i in range(150 if quick else 1500)]
    mcs = [("Routing.tla", "MC_Routing.cfg" if quick else "MC_Routing4.cfg")]
    return props.generic("C09", tier, seed, mcs, scripts, VALS, ASSUME,
                         extra_cov={"operation_sequences_enumerated_by_tlc": len(seqs), "generator_states": gst})


def replay_C09(scripts):
    return props.generic("C09", "quick", 0, [], scripts, VALS, [], shards=1)
