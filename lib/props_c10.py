"""C10 - wire encodings round-trip and decoders are total.

MC   MC_Codec.tla/MC_Codec.cfg: theorems about the reference codecs of spec/Codec.tla
GEN  CodecVec.tla/CodecGen_{quick,full}.cfg: TLC enumerates the test vectors
RUN  harness-codec (binary qc) replays them through quinn-proto's real encoders/decoders
VAL  CodecTrace.tla validates every recorded result against the reference codecs
"""
import hashlib
import json
import os
import random
import re
import shutil
import time
from concurrent.futures import ThreadPoolExecutor

import verif as V

HARNESS = os.path.join(V.ROOT, "harness-codec")
QC = os.path.join(HARNESS, "target", "release", "qc")
RUN_RE = re.compile(r'"run":(\d+)')

ASSUMPTIONS = [
    "reference codecs are those of spec/Codec.tla (RFC 9000 sec. 16-19 and appendix A, RFC 9221, RFC 9287, ack-frequency draft); "
    "frame types encoded on more bytes than necessary are accepted (RFC: MAY reject), repeated grease_quic_bit / min_ack_delay parameters are unconstrained (RFC: SHOULD reject)",
    "numbers are below 2^62; packet number vectors keep expected < 2^62 - 2^33 and n - largest_acked < 2^31 (beyond, PacketNumber::new has no encoding and panics by design)",
    "a run of equal expansion results over consecutive receiver states is compared at both ends only (the reference expansion is monotone in the expected packet number)",
    "frames serialized inline by connection code (MAX_DATA, MAX_STREAMS, PING, ...) are encoded by the hook the same way (FrameType constant + write_var); Header/PartialEncode run with no-op header protection (sample size 16) and no packet protection",
    "tokens are sealed with a toy AEAD (plaintext + keyed checksum) supplied through the public HandshakeTokenKey trait; HashedConnectionIdGenerator draws its nonce from quinn's own RNG",
    "decoders of codec-level scope: semantic checks made later by the connection (empty NEW_TOKEN, MAX_STREAMS above 2^60, final size rules, ...) are not part of this property",
]


def build():
    t = time.time()
    rc, out = V.sh(["cargo", "build", "--release", "--offline"], 1800, cwd=HARNESS,
                   env={"CARGO_NET_OFFLINE": "true"}, check=False)
    if rc != 0:
        raise V.ToolError("harness-codec build failed:\n" + out[-6000:])
    V.log("[build] harness-codec ok in %.1fs" % (time.time() - t))


def model_check():
    """MC_Codec without -coverage (per-expression coverage of the vector sets exhausts the heap)."""
    meta = os.path.join(V.WORK, "tlc_mc_C10")
    shutil.rmtree(meta, ignore_errors=True)
    t = time.time()
    rc, out = V.tlc("MC_Codec.tla", "MC_Codec.cfg", meta, workers=8, timeout=600, heap="8g")
    shutil.rmtree(meta, ignore_errors=True)
    m = re.search(r"(\d+) states generated, (\d+) distinct states found", out)
    if rc != 0 or "No error has been found" not in out or not m:
        raise V.ToolError("model checking of MC_Codec failed (rc=%d):\n%s" % (rc, out[-5000:]))
    res = {"module": "MC_Codec.tla", "cfg": "MC_Codec.cfg", "generated": int(m.group(1)), "distinct": int(m.group(2)),
           "wall_s": round(time.time() - t, 1)}
    V.log("[mc] MC_Codec: %d distinct states, %.1fs" % (res["distinct"], res["wall_s"]))
    return res


def compose(items, tier, r):
    """Turn TLC's vectors into the replay list: choose the mutation budget per vector, add
    multi-frame payloads built from TLC's frame encodings, subsample for the quick tier."""
    quick = tier == "quick"
    by = {}
    for it in items:
        by.setdefault(it["k"], []).append(it)
    vecs = []

    def take(lst, n):
        return list(lst) if len(lst) <= n else r.sample(lst, n)

    vecs += by.get("Var", [])
    vecs += by.get("Pn", [])
    vecs += by.get("Close", [])
    vecs += by.get("Token", [])
    for it in by.get("TokenRaw", []):
        v = dict(it)
        vecs.append(v)
    for it in by.get("CidGen", []):
        for _ in range(8 if quick else 64):
            vecs.append(dict(it))
    frames = by.get("Frame", [])
    for it in frames:
        v = dict(it)
        v["mut"] = 16 if quick else (-1 if len(it["bytes"]) <= 24 else 100)
        vecs.append(v)
    # payloads of several frames: all but the last need an explicit length
    closed = [f for f in frames if f["len"]]
    for _ in range(6000 if quick else 30000):
        k = r.choice([2, 2, 3, 4, 6])
        seq = [r.choice(closed) for _ in range(k - 1)] + [r.choice(frames)]
        bs = [b for f in seq for b in f["bytes"]]
        vecs.append({"k": "Bytes", "d": ["frames"], "bs": bs, "mut": 4 if quick else 12})
    for it in take(by.get("Tp", []), 9000 if quick else 10 ** 9):
        v = dict(it)
        v["mut"] = 4 if quick else 16
        vecs.append(v)
    for it in take(by.get("Pkt", []), 4000 if quick else 10 ** 9):
        v = dict(it)
        v["mut"] = 10 if quick else 60
        vecs.append(v)
    raw = [it for it in by.get("Bytes", []) if len(it["d"]) == 1]
    for it in raw:
        v = dict(it)
        v["mut"] = 4 if quick else -1
        vecs.append(v)
    short = [it for it in by.get("Bytes", []) if len(it["d"]) > 1]
    vecs += take(short, 40000 if quick else 10 ** 9)
    # transport parameter encodings the writer never produces: integers on longer varints,
    # unknown parameters in between (the generator's bytes are canonical)
    for it in take(by.get("Tp", []), 600 if quick else 6000):
        bs = list(it["bytes"])
        for (pid, val) in [(27, [1, 2, 3]), (0x40 | 0x1f, [])]:
            pre = [pid] if pid < 64 else [0x40, pid & 0x3f]
            vecs.append({"k": "Bytes", "d": ["tpc", "tps"], "bs": pre + [len(val)] + val + bs, "mut": 2})
    for v, val in [([0x01, 0x02, 0x40, 0x05], 5), ([0x04, 0x04, 0x80, 0x00, 0x00, 0x07], 7),
                   ([0x0e, 0x08, 0xc0, 0, 0, 0, 0, 0, 0, 9], 9), ([0x20, 0x02, 0x40, 0x09], 9),
                   ([0x20, 0x02, 0x09, 0x0c, 0x00], 9), ([0x20, 0x00], 0)]:
        vecs.append({"k": "Bytes", "d": ["tpc", "tps"], "bs": v, "mut": -1})
    for i, v in enumerate(vecs):
        v["run"] = i
        v["seed"] = r.getrandbits(31)
    return vecs


def run_and_validate(vecs, tag, shards=None, keep=False):
    d = V.workdir("run_" + tag)
    if shards is None:
        # a trace file is loaded whole by TLC: keep them below ~200k lines
        shards = max(V.NPROC, len(vecs) // 4000)
    shards = max(1, min(shards, len(vecs)))
    files = []
    for k in range(shards):
        chunk = vecs[k::shards]          # round robin: vector kinds are spread evenly
        if not chunk:
            continue
        vf = os.path.join(d, "v%02d.ndjson" % k)
        with open(vf, "w") as f:
            for v in chunk:
                f.write(json.dumps(v, separators=(",", ":")) + "\n")
        files.append((k, vf, os.path.join(d, "t%02d.ndjson" % k)))

    def run_one(job):
        k, vf, of = job
        rc, o = V.sh([QC, "run", vf, of], 1200, check=False)
        if rc != 0:
            raise V.ToolError("qc failed on shard %d (rc=%d): %s" % (k, rc, o[-2000:]))
        return json.loads(o.strip().splitlines()[-1])

    t = time.time()
    with ThreadPoolExecutor(max_workers=V.NPROC) as ex:
        stats = list(ex.map(run_one, files))
    V.log("[run] %d vectors -> %d trace lines in %d shards, %.1fs" % (
        len(vecs), sum(s["lines"] for s in stats), len(files), time.time() - t))

    def val_one(job):
        k, vf, of = job
        return V.validate("CodecTrace.tla", "CodecTrace.cfg", of, "%s_%02d" % (tag, k), timeout=1500)

    t = time.time()
    with ThreadPoolExecutor(max_workers=V.NPROC) as ex:
        res = list(ex.map(val_one, files))
    V.log("[val] CodecTrace over %d files, %d lines, %.1fs" % (len(files), sum(x["lines"] for x in res), time.time() - t))

    viol, known = [], []
    lines = states = 0
    for (k, vf, of), rr in zip(files, res):
        lines += rr["lines"]
        states += rr["states"]
        for v in rr["violations"]:
            run = int(v["run"][0]) if v["run"] and v["run"][0].lstrip("-").isdigit() else -1
            line = None
            try:
                with open(of) as f:
                    for i, ln in enumerate(f, 1):
                        if i == v["line"]:
                            line = json.loads(ln)
                            break
            except Exception:
                pass
            viol.append({"clauses": v["clauses"], "script": vecs[run] if 0 <= run < len(vecs) else None,
                         "key": "run%d" % run, "detail": {"line": v["line"], "observed": line}})
        for kn in rr["known"]:
            run = int(kn["run"][0]) if kn["run"] and kn["run"][0].lstrip("-").isdigit() else -1
            known.append({"names": kn["names"], "script": vecs[run] if 0 <= run < len(vecs) else None})
    # distinct evaluations: trace lines that differ in more than the run id
    distinct = set()
    sample_lines = []
    hist = {}
    kd = re.compile(r'"k":"(\w+)"')
    dd = re.compile(r'"d":"(\w+)"')
    for (k, vf, of) in files:
        with open(of) as f:
            for i, ln in enumerate(f):
                distinct.add(hashlib.blake2b(RUN_RE.sub('"run":0', ln).encode(), digest_size=8).digest())
                m = kd.search(ln)
                name = m.group(1) if m else "?"
                if name == "Dec":
                    m2 = dd.search(ln)
                    name = "Dec." + (m2.group(1) if m2 else "?")
                hist[name] = hist.get(name, 0) + 1
                if k == 0 and i % 4001 == 0 and len(sample_lines) < 6 and len(ln) < 1500:
                    sample_lines.append(json.loads(ln))
    if not keep and not os.environ.get("VERIF_KEEP"):
        shutil.rmtree(d, ignore_errors=True)
    return {"violations": viol, "known": known, "lines": lines, "states": states, "hist": hist, "files": len(files),
            "distinct": len(distinct), "samples": sample_lines}


def check_C10(tier, seed):
    r = random.Random(seed * 7919 + 10)
    quick = tier == "quick"
    build()
    mc = model_check()
    items, gst = V.gen("CodecVec.tla", "CodecGen_quick.cfg" if quick else "CodecGen_full.cfg", "C10", timeout=900)
    kinds = {}
    for it in items:
        kinds[it["k"]] = kinds.get(it["k"], 0) + 1
    vecs = compose(items, tier, r)
    res = run_and_validate(vecs, "C10")
    pn_windows = sum(1 for v in vecs if v["k"] == "Pn")
    cov = {
        "states": mc["distinct"],
        "transitions": mc["generated"],
        "model_checking": [mc],
        "traces_validated_against_impl": len(vecs),
        "trace_lines_validated": res["lines"],
        "trace_states_checked": res["lines"] + res["files"],
        "trace_event_counts": res["hist"],
        "vectors_enumerated_by_tlc": len(items),
        "vectors_enumerated_by_kind": kinds,
        "generator_states": gst,
        "vectors_replayed": len(vecs),
        "packet_number_windows": pn_windows,
        "packet_number_expansions": sum(v["cnt"] for v in vecs if v["k"] == "Pn"),
        "samples": res["samples"][:4] or [vecs[0]],
        "evaluations": res["lines"],
        "distinct_nontrivial": res["distinct"],
        "rule": "one evaluation = one trace line = one call of a quinn-proto encoder or decoder (for Pn lines: one truncation plus the "
                "expansion over a whole window of expected values) compared by TLC with the reference codec; distinct = lines that "
                "differ in more than the run id",
        "exhaustive": False,
    }
    return {"violations": res["violations"], "known": res["known"], "coverage": cov, "assumptions": ASSUMPTIONS,
            "level": "model_checking"}


def replay_C10(scripts):
    build()
    vecs = []
    for i, s in enumerate(scripts):
        v = dict(s)
        v["run"] = i
        vecs.append(v)
    res = run_and_validate(vecs, "C10replay", shards=1)
    return {"violations": res["violations"], "known": res["known"],
            "coverage": {"traces_validated_against_impl": len(vecs), "trace_lines_validated": res["lines"]},
            "assumptions": [], "level": "model_checking"}
