//! qv-udp: drives the real `quinn_udp::UdpSocketState::{send, try_send, recv}` over real loopback
//! sockets and records what it observed as NDJSON for the TLA+ trace spec `UdpTrace.tla` (C19).
//!
//! The harness records observations only (transmit descriptors, return values, RecvMeta fields and
//! digests of byte ranges); every judgement is made by the specification.
//!
//!   qv-udp info                          -> one JSON line with the socket capabilities
//!   qv-udp run <cases.ndjson> <out.ndjson> [--first-run N]
//!
//! Case (one JSON object per line):
//!   {"sk":"v4|v4any|v6|v6any|ds", "rk":"v4|v4any|v6|v6any|ds", "rx_gro":0|1, "iov":1.., "bufsz":n,
//!    "each":0|1, "tx":[{"len":n,"seg":n|0,"ecn":0..3,"src":addr id|0,"dst":addr id,
//!                        "api":"send|try_send","seed":n,"nowait":0|1}, ...]}
//! Address ids: 1 = 127.0.0.1, 2 = ::1, 3 = ::ffff:127.0.0.1, 4 = 127.0.0.2, 5 = ::ffff:127.0.0.2,
//!              0 = none, 9 = anything else.
use std::{
    fs::File,
    io::{BufRead, BufReader, BufWriter, IoSliceMut, Write},
    net::{IpAddr, Ipv4Addr, Ipv6Addr, SocketAddr},
    os::fd::AsRawFd,
    panic::{catch_unwind, AssertUnwindSafe},
    time::{Duration, Instant},
};

use quinn_udp::{EcnCodepoint, RecvMeta, Transmit, UdpSocketState, BATCH_SIZE};
use serde::Deserialize;
use serde_json::{json, Value};
use socket2::{Domain, Protocol, SockAddr, Socket, Type};

fn one() -> u8 {
    1
}

#[derive(Deserialize)]
struct Case {
    sk: String,
    rk: String,
    #[serde(default = "one")]
    rx_gro: u8,
    iov: usize,
    bufsz: usize,
    #[serde(default)]
    each: u8,
    tx: Vec<Tx>,
}

#[derive(Deserialize)]
struct Tx {
    len: usize,
    seg: usize,
    ecn: u8,
    src: u8,
    dst: u8,
    api: String,
    seed: u32,
    #[serde(default)]
    nowait: u8,
}

fn ip_of(id: u8) -> Option<IpAddr> {
    Some(match id {
        1 => IpAddr::V4(Ipv4Addr::new(127, 0, 0, 1)),
        2 => IpAddr::V6(Ipv6Addr::LOCALHOST),
        3 => IpAddr::V6(Ipv4Addr::new(127, 0, 0, 1).to_ipv6_mapped()),
        4 => IpAddr::V4(Ipv4Addr::new(127, 0, 0, 2)),
        5 => IpAddr::V6(Ipv4Addr::new(127, 0, 0, 2).to_ipv6_mapped()),
        _ => return None,
    })
}

fn id_of(ip: IpAddr) -> u8 {
    for id in 1..=5u8 {
        if ip_of(id) == Some(ip) {
            return id;
        }
    }
    9
}

fn ecn_of(code: u8) -> Option<EcnCodepoint> {
    match code {
        1 => Some(EcnCodepoint::Ect1),
        2 => Some(EcnCodepoint::Ect0),
        3 => Some(EcnCodepoint::Ce),
        _ => None,
    }
}

fn open(kind: &str) -> std::io::Result<Socket> {
    let (domain, addr, dual): (Domain, SocketAddr, Option<bool>) = match kind {
        "v4" => (Domain::IPV4, (Ipv4Addr::LOCALHOST, 0).into(), None),
        "v4any" => (Domain::IPV4, (Ipv4Addr::UNSPECIFIED, 0).into(), None),
        "v6" => (Domain::IPV6, (Ipv6Addr::LOCALHOST, 0).into(), Some(true)),
        "v6any" => (Domain::IPV6, (Ipv6Addr::UNSPECIFIED, 0).into(), Some(true)),
        "ds" => (Domain::IPV6, (Ipv6Addr::UNSPECIFIED, 0).into(), Some(false)),
        _ => return Err(std::io::Error::other("unknown socket kind")),
    };
    let s = Socket::new(domain, Type::DGRAM, Some(Protocol::UDP))?;
    if let Some(only6) = dual {
        s.set_only_v6(only6)?;
    }
    s.bind(&SockAddr::from(addr))?;
    Ok(s)
}

/// Deterministic payload: byte stream of a 64-bit LCG seeded by the transmit's seed.
fn fill(seed: u32, buf: &mut [u8]) {
    let mut x = (seed as u64).wrapping_mul(0x9E37_79B9_7F4A_7C15).wrapping_add(1);
    for b in buf.iter_mut() {
        x = x
            .wrapping_mul(6364136223846793005)
            .wrapping_add(1442695040888963407);
        *b = (x >> 56) as u8;
    }
}

/// Digest of a byte range: [len, first byte, last byte, FNV-1a folded to 31 bits].
fn digest(b: &[u8]) -> Value {
    let mut h: u32 = 0x811c_9dc5;
    for &x in b {
        h ^= x as u32;
        h = h.wrapping_mul(0x0100_0193);
    }
    let b0 = b.first().copied().unwrap_or(0);
    let bl = b.last().copied().unwrap_or(0);
    json!([b.len().min(i32::MAX as usize), b0, bl, h & 0x7fff_ffff])
}

fn panic_msg(p: Box<dyn std::any::Any + Send>) -> String {
    if let Some(s) = p.downcast_ref::<&str>() {
        s.to_string()
    } else if let Some(s) = p.downcast_ref::<String>() {
        s.clone()
    } else {
        "?".into()
    }
}

/// MTU of the loopback interface (bounds the largest datagram the kernel accepts)
fn lo_mtu() -> i64 {
    std::fs::read_to_string("/sys/class/net/lo/mtu")
        .ok()
        .and_then(|s| s.trim().parse::<i64>().ok())
        .unwrap_or(65536)
}

fn clamp(x: usize) -> i64 {
    x.min(0x7fff_ffff) as i64
}

struct Patience {
    timeouts: u32,
}

impl Patience {
    fn idle(&self) -> Duration {
        // a generous 2 s for the first few stalls; once a shard has already produced stalls (each
        // of which is a violation by itself) do not spend minutes on the following ones
        if self.timeouts < 3 {
            Duration::from_millis(2000)
        } else {
            Duration::from_millis(100)
        }
    }
}

fn run_case(run: usize, c: &Case, out: &mut impl Write, pat: &mut Patience) {
    macro_rules! emit {
        ($v:expr) => {{
            let v: Value = $v;
            writeln!(out, "{}", v).unwrap();
        }};
    }
    let (tx_sock, rx_sock) = match (open(&c.sk), open(&c.rk)) {
        (Ok(a), Ok(b)) => (a, b),
        (a, b) => {
            emit!(json!({"ev":"Reset","run":run,"sk":c.sk,"rk":c.rk,"gso":0,"gro":0,"rx_gro":0,"sport":0,
                         "iov":0,"bufsz":0,"batch":0,"mtu":0}));
            emit!(json!({"ev":"SetupError","what":format!("{:?} {:?}", a.err(), b.err())}));
            return;
        }
    };
    let states = catch_unwind(AssertUnwindSafe(|| {
        (
            UdpSocketState::new((&tx_sock).into()),
            UdpSocketState::new((&rx_sock).into()),
        )
    }));
    let (tx_state, rx_state) = match states {
        Ok((Ok(a), Ok(b))) => (a, b),
        other => {
            emit!(json!({"ev":"Reset","run":run,"sk":c.sk,"rk":c.rk,"gso":0,"gro":0,"rx_gro":0,"sport":0,
                         "iov":0,"bufsz":0,"batch":0,"mtu":0}));
            match other {
                Err(p) => emit!(json!({"ev":"Panic","where":"new","msg":panic_msg(p)})),
                Ok((a, b)) => {
                    emit!(json!({"ev":"SetupError","what":format!("{:?} {:?}", a.err(), b.err())}))
                }
            }
            return;
        }
    };
    let _ = rx_state.set_recv_buffer_size((&rx_sock).into(), 4 << 20);
    if c.rx_gro == 0 {
        // environment choice: a receiver without GRO (the kernel then segments in software)
        let off: libc::c_int = 0;
        unsafe {
            libc::setsockopt(
                rx_sock.as_raw_fd(),
                libc::SOL_UDP,
                libc::UDP_GRO,
                &off as *const _ as _,
                std::mem::size_of_val(&off) as _,
            );
        }
    }
    let sport = tx_sock.local_addr().unwrap().as_socket().unwrap().port();
    let rport = rx_sock.local_addr().unwrap().as_socket().unwrap().port();
    let iov = c.iov.max(1);
    emit!(json!({"ev":"Reset","run":run,"sk":c.sk,"rk":c.rk,
                 "gso":clamp(tx_state.max_gso_segments()),"gro":clamp(rx_state.gro_segments()),
                 "rx_gro":c.rx_gro,"sport":sport,"iov":clamp(iov),"bufsz":clamp(c.bufsz),
                 "batch":clamp(BATCH_SIZE),"mayfrag":tx_state.may_fragment(),"mtu":lo_mtu()}));

    let mut bufs: Vec<Vec<u8>> = (0..iov).map(|_| vec![0xEEu8; c.bufsz.max(1)]).collect();
    let mut metas = vec![RecvMeta::default(); iov];
    let mut expect = 0usize; // datagrams the harness waits for (drain stop condition only)
    let mut got = 0usize;
    let mut dead = false;
    let mut timed_out = false;

    let mut drain = |expect: usize, got: &mut usize, dead: &mut bool, timed_out: &mut bool,
                     out: &mut dyn Write, pat: &mut Patience| {
        let mut last_progress = Instant::now();
        loop {
            let wait_ms: i32 = if *got >= expect {
                1
            } else {
                let idle = pat.idle();
                let el = last_progress.elapsed();
                if el >= idle {
                    *timed_out = true;
                    pat.timeouts += 1;
                    break;
                }
                ((idle - el).as_millis() as i32).max(1)
            };
            let mut pfd = libc::pollfd { fd: rx_sock.as_raw_fd(), events: libc::POLLIN, revents: 0 };
            let r = unsafe { libc::poll(&mut pfd, 1, wait_ms) };
            if r == 0 {
                if *got >= expect {
                    break;
                }
                continue;
            }
            let res = {
                let mut slices: Vec<IoSliceMut<'_>> =
                    bufs.iter_mut().map(|b| IoSliceMut::new(&mut b[..])).collect();
                catch_unwind(AssertUnwindSafe(|| {
                    rx_state.recv((&rx_sock).into(), &mut slices, &mut metas)
                }))
            };
            match res {
                Err(p) => {
                    writeln!(out, "{}", json!({"ev":"Panic","where":"recv","msg":panic_msg(p)})).unwrap();
                    *dead = true;
                    break;
                }
                Ok(Err(e)) if e.kind() == std::io::ErrorKind::WouldBlock => continue,
                Ok(Err(e)) => {
                    writeln!(out, "{}", json!({"ev":"RecvErr","errno":e.raw_os_error().unwrap_or(-1),
                                               "msg":e.to_string()})).unwrap();
                    *dead = true;
                    break;
                }
                Ok(Ok(n)) => {
                    for i in 0..n.min(iov) {
                        let m = &metas[i];
                        let avail = m.len.min(bufs[i].len());
                        let data = &bufs[i][..avail];
                        let dgs: Vec<Value> = if m.stride >= 1 && m.stride <= avail {
                            data.chunks(m.stride).map(digest).collect()
                        } else {
                            vec![digest(data)]
                        };
                        *got += dgs.len();
                        let ecn = m.ecn.map_or(0, |x| x as u8);
                        writeln!(out, "{}", json!({"ev":"Recvd","n":clamp(n),"i":clamp(i + 1),
                            "len":clamp(m.len),"stride":clamp(m.stride),"ecn":ecn,
                            "addr":id_of(m.addr.ip()),"port":m.addr.port(),
                            "dst_ip":m.dst_ip.map_or(0, id_of),"dgs":dgs})).unwrap();
                        for b in bufs[i][..avail].iter_mut() {
                            *b = 0xEE;
                        }
                    }
                    if n > iov {
                        writeln!(out, "{}", json!({"ev":"RecvCountExceedsBuffers","n":clamp(n)})).unwrap();
                    }
                    last_progress = Instant::now();
                }
            }
        }
    };

    let mut contents: Vec<u8> = Vec::new();
    for t in &c.tx {
        if dead {
            break;
        }
        contents.clear();
        contents.resize(t.len, 0);
        fill(t.seed, &mut contents);
        let dst_ip = match ip_of(t.dst) {
            Some(ip) => ip,
            None => continue,
        };
        let transmit = Transmit {
            destination: SocketAddr::new(dst_ip, rport),
            ecn: ecn_of(t.ecn),
            contents: &contents,
            segment_size: if t.seg == 0 { None } else { Some(t.seg) },
            src_ip: ip_of(t.src),
        };
        let gso_before = tx_state.max_gso_segments();
        let r = catch_unwind(AssertUnwindSafe(|| {
            if t.api == "send" {
                tx_state.send((&tx_sock).into(), &transmit)
            } else {
                tx_state.try_send((&tx_sock).into(), &transmit)
            }
        }));
        let gso_after = tx_state.max_gso_segments();
        let segs: Vec<Value> = if t.seg >= 1 {
            contents.chunks(t.seg).map(digest).collect()
        } else {
            vec![digest(&contents)]
        };
        match r {
            Err(p) => {
                emit!(json!({"ev":"Panic","where":t.api,"msg":panic_msg(p)}));
                dead = true;
            }
            Ok(res) => {
                let (rs, errno) = match &res {
                    Ok(()) => ("Ok", 0),
                    Err(e) if e.kind() == std::io::ErrorKind::WouldBlock => ("WouldBlock", e.raw_os_error().unwrap_or(-1)),
                    Err(e) => ("Err", e.raw_os_error().unwrap_or(-1)),
                };
                if rs == "Ok" && t.nowait == 0 {
                    expect += segs.len();
                }
                emit!(json!({"ev":"Sent","api":t.api,"res":rs,"errno":errno,"len":clamp(t.len),
                             "seg":clamp(t.seg),"ecn":t.ecn,"src":t.src,"dst":t.dst,"seed":t.seed & 0x7fff_ffff,
                             "gso_before":clamp(gso_before),"gso_after":clamp(gso_after),"segs":segs}));
            }
        }
        if c.each != 0 && !dead {
            drain(expect, &mut got, &mut dead, &mut timed_out, out, pat);
        }
    }
    if !dead {
        drain(expect, &mut got, &mut dead, &mut timed_out, out, pat);
    }
    emit!(json!({"ev":"End","run":run,"timeout":if timed_out {1} else {0},"dead":if dead {1} else {0}}));
}

fn main() {
    std::panic::set_hook(Box::new(|_| {}));
    let args: Vec<String> = std::env::args().collect();
    if args.len() >= 2 && args[1] == "info" {
        let s = open("v4").expect("socket");
        let st = UdpSocketState::new((&s).into()).expect("state");
        let s6 = open("v6").is_ok();
        let _ = st.set_recv_buffer_size((&s).into(), 4 << 20);
        let rcvbuf = st.recv_buffer_size((&s).into()).unwrap_or(0);
        println!(
            "{}",
            json!({"gso":st.max_gso_segments(),"gro":st.gro_segments(),"batch":BATCH_SIZE,
                   "mayfrag":st.may_fragment(),"v6":s6,"mtu":lo_mtu(),
                   "rcvbuf":rcvbuf})
        );
        return;
    }
    if args.len() < 4 || args[1] != "run" {
        eprintln!("usage: qv-udp info | qv-udp run <cases.ndjson> <out.ndjson> [--first-run N]");
        std::process::exit(2);
    }
    let mut first = 0usize;
    let mut i = 4;
    while i + 1 < args.len() {
        if args[i] == "--first-run" {
            first = args[i + 1].parse().expect("first-run");
        }
        i += 2;
    }
    let inp = BufReader::new(File::open(&args[2]).expect("cases file"));
    let mut out = BufWriter::new(File::create(&args[3]).expect("out file"));
    let mut pat = Patience { timeouts: 0 };
    for (k, line) in inp.lines().enumerate() {
        let line = line.expect("read");
        if line.trim().is_empty() {
            continue;
        }
        let c: Case = serde_json::from_str(&line).expect("case json");
        run_case(first + k, &c, &mut out, &mut pat);
    }
    out.flush().unwrap();
}
